"""C15 — the abstract interpreter agrees with the real DSL on types and values (K5)."""
import json
from .. import core
from ..gen import rng as R
from ..real.env import reset_globals

MODULE = "NadaVerif.Props.C15"
TRANSLATORS = None
THEOREMS = [f"NadaVerif.C15.{n}" for n in (
    "abstract_accepts_when_real", "abstract_table_covers", "abs_arith_exact", "abs_cmp_exact", "abs_ifElse_exact")]

BIN = ["+", "-", "*", "<", "<=", ">", ">=", "==", "!="]


def gen_expr(rng, depth, names):
    """expression tree over integer inputs / literals; booleans only as if_else conditions"""
    if depth <= 0 or rng.random() < 0.25:
        if rng.random() < 0.75:
            return ("var", rng.choice(names))
        # (literals of the values that arithmetic could be tempted to simplify away, as often as large ones)
        return ("lit", rng.choice([0, 0, 1, -1]) if rng.random() < 0.4 else R.big_int(rng))
    k = rng.random()
    if k < 0.08:
        # an accumulator seeded with an existing value and updated by augmented assignment; the seed is used again afterwards
        return ("aug", rng.choice(["+", "-", "*"]), gen_expr(rng, min(depth - 1, 1), names), gen_expr(rng, depth - 1, names))
    if k < 0.6:
        return ("bin", rng.choice(["+", "-", "*"]), gen_expr(rng, depth - 1, names), gen_expr(rng, depth - 1, names))
    if k < 0.7:
        return ("neg", gen_expr(rng, depth - 1, names))
    x, y = gen_expr(rng, depth - 1, names), gen_expr(rng, depth - 1, names)
    if rng.random() < 0.3:
        # both sides equal in value without being the same object: the boundary case of every comparison
        op = rng.choice(["+", "*"])
        x, y = ("bin", op, x, y), ("bin", op, y, x)
    cond = ("bin", rng.choice(["<", "<=", ">", ">=", "==", "!="]), x, y)
    return ("ife", cond, gen_expr(rng, depth - 1, names), gen_expr(rng, depth - 1, names))


def build(e, env, lit):
    import operator
    ops = {"+": operator.add, "-": operator.sub, "*": operator.mul, "<": operator.lt, "<=": operator.le, ">": operator.gt,
           ">=": operator.ge, "==": operator.eq, "!=": operator.ne}
    if e[0] == "var":
        return env[e[1]]
    if e[0] == "lit":
        return lit(e[1])
    if e[0] == "bin":
        return ops[e[1]](build(e[2], env, lit), build(e[3], env, lit))
    if e[0] == "neg":
        return -build(e[1], env, lit)
    if e[0] == "chain":
        # acc = seed; acc = acc op term, n times (a long reduction: depth of the value, not of the expression text)
        acc, term = build(e[3], env, lit), build(e[4], env, lit)
        for _ in range(e[2]):
            acc = ops[e[1]](acc, term)
        return acc
    if e[0] == "pre":
        # c1 = …; c2 = …; c3 = … (all comparisons first, as a program that names its conditions does), then the selection
        c1, c2, c3 = build(e[1], env, lit), build(e[2], env, lit), build(e[3], env, lit)
        return c1.if_else(build(e[4], env, lit), c2.if_else(build(e[5], env, lit), c3.if_else(build(e[6], env, lit), build(e[4], env, lit))))
    if e[0] == "aug":
        seed = build(e[2], env, lit)
        acc = seed
        acc = {"+": operator.iadd, "-": operator.isub, "*": operator.imul}[e[1]](acc, build(e[3], env, lit))
        return acc - seed
    c = build(e[1], env, lit)
    return c.if_else(build(e[2], env, lit), build(e[3], env, lit))


def exact(e, vals):
    import operator
    ops = {"+": operator.add, "-": operator.sub, "*": operator.mul, "<": operator.lt, "<=": operator.le, ">": operator.gt,
           ">=": operator.ge, "==": operator.eq, "!=": operator.ne}
    if e[0] == "var":
        return vals[e[1]]
    if e[0] == "lit":
        return e[1]
    if e[0] == "bin":
        return ops[e[1]](exact(e[2], vals), exact(e[3], vals))
    if e[0] == "neg":
        return -exact(e[1], vals)
    if e[0] == "chain":
        acc, term = exact(e[3], vals), exact(e[4], vals)
        for _ in range(e[2]):
            acc = ops[e[1]](acc, term)
        return acc
    if e[0] == "pre":
        return exact(e[4], vals) if exact(e[1], vals) else (exact(e[5], vals) if exact(e[2], vals) else (exact(e[6], vals) if exact(e[3], vals) else exact(e[4], vals)))
    if e[0] == "aug":
        return ops[e[1]](exact(e[2], vals), exact(e[3], vals)) - exact(e[2], vals)
    return exact(e[2], vals) if exact(e[1], vals) else exact(e[3], vals)


def show(e):
    if e[0] == "var":
        return e[1]
    if e[0] == "lit":
        return f"Integer({e[1]})"
    if e[0] == "bin":
        return f"({show(e[2])} {e[1]} {show(e[3])})"
    if e[0] == "neg":
        return f"(-{show(e[1])})"
    if e[0] == "chain":
        return f"(acc = {show(e[3])}; {e[2]} times: acc = acc {e[1]} {show(e[4])})"
    if e[0] == "pre":
        return f"(c1 = {show(e[1])}; c2 = {show(e[2])}; c3 = {show(e[3])}; c1.if_else({show(e[4])}, c2.if_else({show(e[5])}, c3.if_else({show(e[6])}, {show(e[4])}))))"
    if e[0] == "aug":
        return f"(seed := {show(e[2])}; acc = seed; acc {e[1]}= {show(e[3])}; acc - seed)"
    return f"{show(e[1])}.if_else({show(e[2])}, {show(e[3])})"


def run_one(e, modes, vals):
    """returns (real outcome, abstract outcome)"""
    import nada_dsl as D
    import nada_dsl.audit.abstract as A
    reset_globals()
    p = D.Party("p")
    cls = {"pub": D.PublicInteger, "sec": D.SecretInteger}
    env = {n: (D.Integer(vals[n]) if m == "const" else cls[m](D.Input(n, p))) for n, m in modes.items()}
    try:
        r = build(e, env, D.Integer)
        real = ("ok", type(r).__name__)
    except RecursionError:
        raise
    except Exception as exc:  # pylint: disable=broad-except
        real = ("reject", type(exc).__name__)
    A.Abstract.initialize(dict(vals))
    ap = A.Party("p")
    acls = {"pub": A.PublicInteger, "sec": A.SecretInteger}
    try:
        aenv = {n: (A.Integer(vals[n]) if m == "const" else acls[m](A.Input(n, ap))) for n, m in modes.items()}
        a = build(e, aenv, A.Integer)
        absr = ("ok", type(a).__name__, getattr(a, "value", None))
    except Exception as exc:  # pylint: disable=broad-except
        absr = ("reject", type(exc).__name__)
    reset_globals()
    return real, absr


def run_again(e, modes, vals, vals2):
    """the program's Input objects live on (declared once, as module-level declarations do); the expression is evaluated
    under `vals`, then — with new wrappers around the same Input objects — under `vals2`: the second value is what is
    returned ((class, value) or ("reject", exception))"""
    import nada_dsl.audit.abstract as A
    reset_globals()
    A.Abstract.initialize(dict(vals))
    ap = A.Party("p")
    acls = {"pub": A.PublicInteger, "sec": A.SecretInteger}
    try:
        inputs = {n: A.Input(n, ap) for n, m in modes.items() if m != "const"}
        out = None
        for vv in (vals, vals2):
            A.Abstract.initialize(dict(vv))
            aenv = {n: (A.Integer(vv[n]) if m == "const" else acls[m](inputs[n])) for n, m in modes.items()}
            a = build(e, aenv, A.Integer)
            out = ("ok", type(a).__name__, getattr(a, "value", None))
    except Exception as exc:  # pylint: disable=broad-except
        out = ("reject", type(exc).__name__)
    reset_globals()
    return out


def run(res, tier):
    ans = core.driver([{"k": "c15cells"}])[0]
    for cell in ans["cellAgrees"]:
        res.violation({"property": "C15", "kind": "cell", "cell": cell},
                      f"{cell['op']}({', '.join(cell['args'])}): accepted by the real DSL as {cell['outcomes']}, the abstract interpreter disagrees")
    rng = R.make("C15")
    n = 300 if tier == "quick" else 10000
    depth_max = 4 if tier == "quick" else 7
    evals, nontrivial = 0, set()
    samples = []
    for i in range(n):
        names = ["a", "b", "c", "d"][: rng.randint(1, 4)]
        modes = {nm: rng.choice(["pub", "sec", "sec", "const"]) for nm in names}
        vals = {nm: rng.choice([0, 0, 1, -1, 7]) if rng.random() < 0.5 else R.big_int(rng) for nm in names}
        if len(names) > 1 and rng.random() < 0.3:
            # two inputs with the same value (parsed separately, as run-time values are: equal, not identical)
            vals[names[1]] = int(str(vals[names[0]]))
        e = gen_expr(rng, rng.randint(1, depth_max), names)
        if i % 5 == 0:
            # a comparison at the root, so that its value is what is observed
            e = ("bin", rng.choice(["<", "<=", ">", ">=", "==", "!="]), e, gen_expr(rng, rng.randint(0, 2), names)) if rng.random() < 0.5 else \
                ("ife", ("bin", rng.choice(["==", "!=", "<=", ">="]), ("var", names[0]), ("var", names[-1])), ("lit", 1), ("lit", 0))
        if i % 60 == 11:
            # a long reduction: the value is a chain of several hundred / thousand operations
            e = ("chain", rng.choice(["+", "-", "+"]), rng.choice([600, 1100, 2500]), ("var", names[0]), gen_expr(rng, 1, names))
        if i % 9 == 4:
            # conditions computed first and consumed afterwards: several comparisons of the same two values (same operand
            # classes, different answers) are alive at the same time
            x, y = ("var", names[0]), ("var", names[-1]) if rng.random() < 0.6 else gen_expr(rng, 1, names)
            o1, o2, o3 = rng.sample(["<", ">", "==", "!=", "<=", ">="], 3)
            e = ("pre", ("bin", o1, x, y), ("bin", o2, x, y), ("bin", o3, y, x), ("lit", 1), ("lit", 2), gen_expr(rng, 1, names))
        if i % 11 == 5:
            # a literal of the value 0 / 1 next to a run-time operand under every operator, at the root and under a comparison: the
            # result is a run-time value of the operand's class whatever the literal's value
            v = ("var", rng.choice(names))
            lit = ("lit", rng.choice([0, 0, 1]))
            pair = (v, lit) if rng.random() < 0.5 else (lit, v)
            e = ("bin", rng.choice(["*", "*", "+", "-"]), pair[0], pair[1])
            if rng.random() < 0.5:
                e = ("bin", rng.choice(["<", "==", ">="]), e, ("var", names[-1]))
        if i % 7 == 3:
            # a value compared with / combined with *itself* (the same Python object on both sides, as on the diagonal of an
            # all-pairs loop), at the root or under an if_else
            v = ("var", rng.choice(names))
            cmp_ = ("bin", rng.choice(["==", "!=", "<", "<=", ">", ">="]), v, v)
            e = rng.choice([cmp_, ("ife", cmp_, e, ("var", names[-1])), ("bin", rng.choice(["+", "-", "*"]), v, v)])
        real, absr = run_one(e, modes, vals)
        evals += 1
        if real[0] != "ok":
            continue
        nontrivial.add(show(e) + repr(sorted(modes.items())))
        text = None
        if absr[0] != "ok":
            text = f"real DSL accepts (-> {real[1]}) but the abstract interpreter raises {absr[1]}"
        elif absr[1] != real[1]:
            text = f"real DSL gives {real[1]}, abstract interpreter gives {absr[1]}"
        else:
            want = exact(e, vals)
            if type(absr[2]) is not type(want) or absr[2] != want:
                text = f"abstract value {absr[2]!r}, exact evaluation {want!r}"
        if text is None and i % 3 == 0:
            # a second evaluation of the same program under other input values (the Input objects are the same)
            vals2 = {nm: (R.big_int(rng) if rng.random() < 0.5 else rng.choice([0, 1, -1, 3])) for nm in names}
            abs2 = run_again(e, modes, vals, vals2)
            if abs2[0] == "ok":
                want2 = exact(e, vals2)
                if type(abs2[2]) is not type(want2) or abs2[2] != want2:
                    res.violation({"property": "C15", "kind": "expr-again", "expr": e, "modes": modes, "values": {k: str(v) for k, v in vals.items()},
                                   "values2": {k: str(v) for k, v in vals2.items()}, "shown": show(e)},
                                  f"{show(e)} with {modes}: evaluated under {vals} and then under {vals2}: abstract value {abs2[2]!r}, "
                                  f"exact evaluation of the second inputs {want2!r}"[:400])
        if text:
            res.violation({"property": "C15", "kind": "expr", "expr": e, "modes": modes, "values": {k: str(v) for k, v in vals.items()},
                           "shown": show(e), "text": text}, f"{show(e)} with {modes} {vals}: {text}"[:400])
            if len(res.violations) > 12:
                break
        if len(samples) < 3:
            samples.append({"expr": show(e), "modes": modes, "values": {k: str(v) for k, v in vals.items()}, "real": real, "abstract": [str(x) for x in absr]})
    res.coverage.update({
        "evaluations": evals, "distinct_nontrivial": len(nontrivial),
        "rule": "random expression trees (depth <= %d) over integer inputs of every secrecy mode and literals with the modelled operators "
                "(+ - * unary-, six comparisons, if_else), values 0/±1/small and magnitudes up to 10^400; the same expression is built with "
                "the real DSL and with nada_dsl.audit (concrete context); when the real DSL accepts: same class name and the abstract "
                "value equals exact Python integer evaluation; non-trivial = distinct accepted (expression, modes)" % depth_max,
        "table_cells": 2295, "samples": samples,
    })
    res.assumptions += ["operators the abstract interpreter does not model (/ % ** << >>, boolean connectives, unsigned integers) are outside C15"]


def replay(obj):
    if obj.get("kind") == "cell":
        print(json.dumps(obj["cell"]))
        ans = core.driver([{"k": "c15cells"}])[0]
        bad = any(c["op"] == obj["cell"]["op"] and c["args"] == obj["cell"]["args"] for c in ans["cellAgrees"])
    elif obj.get("kind") == "expr-again":
        def tup(x):
            return tuple(tup(y) for y in x) if isinstance(x, list) else x
        e = tup(obj["expr"])
        vals = {k: int(v) for k, v in obj["values"].items()}
        vals2 = {k: int(v) for k, v in obj["values2"].items()}
        abs2 = run_again(e, obj["modes"], vals, vals2)
        print(abs2, exact(e, vals2))
        bad = abs2[0] == "ok" and abs2[2] != exact(e, vals2)
    else:
        def tup(x):
            return tuple(tup(y) for y in x) if isinstance(x, list) else x
        e = tup(obj["expr"])
        vals = {k: int(v) for k, v in obj["values"].items()}
        real, absr = run_one(e, obj["modes"], vals)
        print(real, absr, exact(e, vals))
        bad = real[0] == "ok" and (absr[0] != "ok" or absr[1] != real[1] or absr[2] != exact(e, vals))
    if bad:
        print("VIOLATION property=C15 replay=(replayed)")
    return 1 if bad else 0
