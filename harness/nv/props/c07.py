"""C07 — tracing is oblivious: program shape cannot depend on run-time data."""
import json
import operator
import os
import sys
from .. import core
from ..extract import t3_classes as T3
from ..real.env import reset_globals

MODULE = "NadaVerif.Props.C07"
TRANSLATORS = None
THEOREMS = [f"NadaVerif.C07.{n}" for n in ("nonliterals_oblivious", "array_iteration_raises", "array_walks_raise", "membership_raises", "table_covers", "literal_bool_ok")]

OPS = {"__eq__": operator.eq, "__ne__": operator.ne, "__lt__": operator.lt, "__le__": operator.le,
       "__gt__": operator.gt, "__ge__": operator.ge}


def kind(thunk):
    from nada_dsl.nada_types import NadaType
    try:
        r = thunk()
    except RecursionError:
        raise
    except Exception:  # pylint: disable=broad-except
        return "raises"
    return "nada" if isinstance(r, NadaType) else "silent"


def all_raise(thunks):
    ks = [kind(t) for t in thunks]
    return "raises" if all(k == "raises" for k in ks) else "silent"


def _while(x):
    n = 0
    while x:
        n += 1
        if n > 2:
            break
    return n


def _for(x):
    out = []
    for e in x:
        out.append(e)
        if len(out) > 3:
            break
    return out


def _unpack(x):
    a, *b = x
    return a


def array_provenances():
    """Every way a program obtains a Nada array, and every construct that walks over one: [(provenance, construct,
    outcome)].  The element count of an array is a type-level fact, but handing its members to Python would let the
    program shape follow the values (`for x in arr: if …`), and the property says iteration raises — for every array."""
    from nada_dsl import Party, nada_fn, SecretInteger, Array, NTuple, Object, Tuple, unzip
    from nada_dsl.program_io import Input as RawInput
    reset_globals()
    party = Party("p")

    def sec(n):
        return SecretInteger(RawInput(n, party))
    box = {}

    def body(z: SecretInteger) -> SecretInteger:
        return z + z

    def arr_body(zs):
        box["param"] = zs
        return sec("ret")
    inp = Array(sec("arr"), size=3)
    provs = {"input": inp, "new": Array.new(sec("a"), sec("b")), "new-one": Array.new(sec("c"))}
    try:
        provs["map"] = inp.map(nada_fn(body))
        provs["zip"] = inp.zip(Array(sec("arr2"), size=3))
        provs["from-ntuple"] = NTuple.new([Array.new(sec("d"), sec("e")), sec("f")])[0]
        provs["from-object"] = Object.new({"xs": Array.new(sec("g"), sec("h"))}).xs
        provs["new-of-arrays"] = Array.new(Array.new(sec("i")), Array.new(sec("j")))
        try:
            nada_fn(arr_body, args_ty={"zs": Array[SecretInteger]}, return_ty=SecretInteger)
        except Exception:  # pylint: disable=broad-except
            pass
        if "param" in box:
            provs["fnparam"] = box["param"]
    except Exception as exc:  # pylint: disable=broad-except
        provs["__error__"] = exc
    probe = sec("probe")
    out = []
    for name, x in provs.items():
        if name == "__error__":
            out.append((name, "construction", f"{type(x).__name__}: {x}"))
            continue
        constructs = {
            "list(x)": lambda: list(x), "for": lambda: _for(x), "comprehension": lambda: [e for e in x], "unpack": lambda: _unpack(x),
            "tuple(x)": lambda: tuple(x), "*x": lambda: (lambda *a: a)(*x), "iter(x)": lambda: next(iter(x)),
            "sorted(key)": lambda: sorted(x, key=id), "in": lambda: probe in x, "sum": lambda: sum(x), "zip()": lambda: list(zip(x, [1])),
            "enumerate": lambda: list(enumerate(x)), "any": lambda: any(x), "min(key)": lambda: min(x, key=id),
            "if x": lambda: 1 if x else 2, "not x": lambda: not x,
            "reversed(x)": lambda: list(reversed(x)), "x[i] for i in range(len(x))": lambda: [x[i] for i in range(len(x))],
            "max(x)": lambda: max(x), "set(x)": lambda: set(x), "[*x]": lambda: [*x], "dict.fromkeys(x)": lambda: dict.fromkeys(x),
            "map(f, x)": lambda: list(map(id, x)),
        }
        for cname, thunk in constructs.items():
            out.append((name, cname, kind(thunk)))
    reset_globals()
    return out


def real_routes(cls, provenance):
    """Execute every construct on a real instance of `cls`; returns {(route, other): outcome}."""
    from nada_dsl import Party, nada_fn, SecretInteger
    from nada_dsl.program_io import Input as RawInput
    out = {}
    reset_globals()
    party = Party("p")
    box = {}

    def make():
        x = T3.instance(cls, party)
        if provenance == "opresult" and hasattr(x, "base_type") and not cls.__name__.startswith(("Integer", "Unsigned", "Boolean")):
            y = T3.instance(cls, party, "c")
            x = (x ^ y) if "Boolean" in cls.__name__ else (x + y)
        return x

    x = make()
    if provenance == "fnparam":
        if not hasattr(x, "base_type") or x.is_literal():
            return None

        def body(z):
            box["z"] = z
            return SecretInteger(RawInput("ret", party))
        try:
            nada_fn(body, args_ty={"z": cls}, return_ty=SecretInteger)
        except Exception:  # pylint: disable=broad-except
            pass
        x = box.get("z", x)
    out[("truth", "")] = all_raise([lambda: bool(x), lambda: not x, lambda: x and 1, lambda: x or 1,
                                    lambda: 1 if x else 2, lambda: _while(x), lambda: [1 for _ in [0] if x],
                                    lambda: any([x]), lambda: all([x]), lambda: list(filter(None, [x]))])
    out[("iter", "")] = all_raise([lambda: list(x), lambda: _for(x), lambda: [e for e in x], lambda: _unpack(x),
                                   lambda: tuple(x), lambda: (lambda *a: a)(*x)])
    out[("hash", "")] = all_raise([lambda: {x}, lambda: {x: 1}, lambda: x in {1: 2}, lambda: hash(x)])
    out[("reversed", "")] = all_raise([lambda: list(reversed(x))])
    out[("indexwalk", "")] = all_raise([lambda: [x[i] for i in range(len(x))]])
    probe = SecretInteger(RawInput("probe", party))
    out[("contains", "")] = all_raise([lambda: probe in x, lambda: probe not in x, lambda: 1 if probe in x else 2])
    for other in T3.OTHERS:
        try:
            y = T3.other(other, cls, party)
        except Exception:  # pylint: disable=broad-except
            continue
        for slot, op in OPS.items():
            out[(slot, other)] = kind(lambda: op(x, y))
            thunks = [lambda: bool(op(x, y)), lambda: 1 if op(x, y) else 2]
            if slot == "__eq__":
                thunks += [lambda: x in [y], lambda: [y].index(x), lambda: [y].count(x), lambda: x in (y,)]
            if slot == "__ne__":
                thunks += [lambda: not (x != y)]
            if slot == "__lt__":
                thunks += [lambda: min(y, x), lambda: sorted([y, x]), lambda: x < y < x, lambda: max(y, x),
                           lambda: [y, x].sort()]
            if slot == "__gt__":
                thunks += [lambda: max(x, y), lambda: x > y > x]
            out[(slot + "+truth", other)] = all_raise(thunks)
    reset_globals()
    return out


def mixed_results():
    """Results of operations that mix a non-literal operand with a literal of every small value, both orders: the
    result depends on run-time data, so it must be a non-literal Nada value whose truth test raises — whatever the
    literal's value (a value-dependent shortcut such as `x | False -> False` would hand Python a concrete answer)."""
    import nada_dsl as D
    from nada_dsl.program_io import Input as RawInput
    bad, n = [], 0
    BOOL_OPS = {"&": operator.and_, "|": operator.or_, "^": operator.xor, "==": operator.eq, "!=": operator.ne}
    INT_OPS = {"+": operator.add, "-": operator.sub, "*": operator.mul, "/": operator.truediv, "%": operator.mod,
               "<": operator.lt, ">": operator.gt, "<=": operator.le, ">=": operator.ge, "==": operator.eq, "!=": operator.ne,
               "**": operator.pow, "<<": operator.lshift, ">>": operator.rshift}
    cases = []
    for X in (D.PublicBoolean, D.SecretBoolean):
        for v in (True, False):
            cases += [(X, D.Boolean, v, sym, f) for sym, f in BOOL_OPS.items()]
    for X, L in ((D.PublicInteger, D.Integer), (D.SecretInteger, D.Integer), (D.PublicUnsignedInteger, D.UnsignedInteger),
                 (D.SecretUnsignedInteger, D.UnsignedInteger)):
        for v in (0, 1, 2) + ((-1,) if L is D.Integer else ()):
            cases += [(X, L, v, sym, f) for sym, f in INT_OPS.items()]
    for X, L, v, sym, f in cases:
        for order in ("xl", "lx"):
            reset_globals()
            party = D.Party("p")
            x = X(RawInput("x", party))
            lit = (D.UnsignedInteger if sym in ("<<", ">>") and order == "xl" else L)(v)
            try:
                r = f(x, lit) if order == "xl" else f(lit, x)
            except Exception:  # pylint: disable=broad-except
                continue          # rejected combinations are C02's business
            n += 1
            text = f"{X.__name__} {sym} {L.__name__}({v})" if order == "xl" else f"{L.__name__}({v}) {sym} {X.__name__}"
            from nada_dsl.nada_types import NadaType
            if not isinstance(r, NadaType):
                bad.append((text, f"returned the plain Python value {r!r}"))
                continue
            if kind(lambda r=r: bool(r)) != "raises" or kind(lambda r=r: 1 if r else 2) != "raises":
                bad.append((text, f"returned a {type(r).__name__} whose truth value Python can read "
                                  f"({'literal' if getattr(r, 'is_literal', lambda: False)() else 'non-literal'}): a condition on it silently chooses a branch"))
    reset_globals()
    return bad, n


def aliasing_results():
    """Members read back from an NTuple / Object after the caller changed the list / dict it was built from: the recorded
    value is what was passed at construction, so a non-literal member stays non-literal (its truth test raises) whatever
    the caller's container holds later."""
    import nada_dsl as D
    from nada_dsl.program_io import Input as RawInput
    bad, n = [], 0
    for lit in (D.Boolean(True), D.Boolean(False)):
        for X in (D.SecretBoolean, D.PublicBoolean):
            reset_globals()
            party = D.Party("p")
            flag, other = X(RawInput("flag", party)), D.SecretInteger(RawInput("x", party))
            row = [flag, other]
            try:
                t = D.NTuple.new(row)
                row[0] = lit
                row.append(lit)
                got = [("NTuple.new(row); row[0] = Boolean(..); t[0]", t[0]), ("… t[-2]", t[-2])]
            except Exception:  # pylint: disable=broad-except
                got = []
            fields = {"flag": flag, "x": other}
            try:
                o = D.Object.new(fields)
                fields["flag"] = lit
                got.append(("Object.new(fields); fields['flag'] = Boolean(..); o.flag", o.flag))
            except Exception:  # pylint: disable=broad-except
                pass
            for text, v in got:
                n += 1
                if kind(lambda v=v: bool(v)) != "raises" or kind(lambda v=v: 1 if v else 2) != "raises" or kind(lambda v=v: not v) != "raises":
                    bad.append((f"{X.__name__} member, {text}", f"returned a {type(v).__name__} whose truth value Python can read: the program "
                                                             "branches on a value the recorded container does not hold"))
    reset_globals()
    return bad, n


def recycled_results(rounds=40):
    """Comparisons of short-lived literals (a table of thresholds validated in a helper, then dropped) followed by the same
    comparison operators on freshly built secret and public values — objects the allocator may place where the dead literals
    were.  The result of comparing two non-literal values is never a value whose truth Python can read."""
    import gc
    import nada_dsl as D
    from nada_dsl.program_io import Input as RawInput
    OPS2 = {"<": lambda a, b: a < b, "<=": lambda a, b: a <= b, ">": lambda a, b: a > b, ">=": lambda a, b: a >= b,
            "==": lambda a, b: a == b, "!=": lambda a, b: a != b}
    bad, n = [], 0
    reset_globals()
    party = D.Party("p")

    def validate(k):
        # a table of literal thresholds, compared pairwise; nothing of this survives the call
        table = [D.Integer(10 * i + k) for i in range(12)] + [D.UnsignedInteger(7 * i + k) for i in range(4)]
        for f in OPS2.values():
            for i, low in enumerate(table[:12]):
                for high in table[i + 1:12]:
                    f(low, high)
            for i, low in enumerate(table[12:]):
                for high in table[12 + i + 1:]:
                    f(low, high)
    for k in range(rounds):
        validate(k)
        gc.collect()
        for X in (D.SecretInteger, D.PublicInteger) if k % 2 == 0 else (D.PublicUnsignedInteger, D.SecretInteger):
            fresh = [X(RawInput(f"x{k}_{i}", party)) for i in range(12)]
            for sym, f in OPS2.items():
                for i, a in enumerate(fresh):
                    for j, b in enumerate(fresh):
                        if i == j:
                            continue
                        r = f(a, b)
                        n += 1
                        if kind(lambda r=r: bool(r)) != "raises" or getattr(r, "is_literal", lambda: False)():
                            bad.append((f"a table of literals compared pairwise and dropped, then {X.__name__} {sym} {X.__name__} on two fresh inputs (round {k})",
                                        f"returned a {type(r).__name__} whose truth value Python can read: `if`, `min`, `sorted` silently take a branch"))
                            reset_globals()
                            return bad, n
            del fresh
    reset_globals()
    return bad, n


def shared_members():
    """Two containers of one kind in a process: the first holds literals and is read first, the second holds non-literal
    values at the same positions / under the same names.  What is read from the second is its own member (its truth test
    raises), whatever was read from the first."""
    import nada_dsl as D
    from nada_dsl.program_io import Input as RawInput
    bad, n = [], 0
    reset_globals()
    party = D.Party("p")
    settings = D.NTuple.new([D.Boolean(True), D.Integer(3), D.Boolean(False)])
    first = [settings[0], settings[1], settings[-1]]
    cfg = D.Object.new({"flag": D.Boolean(True), "limit": D.Integer(3)})
    first += [cfg.flag, cfg.limit]
    record = D.NTuple.new([D.SecretBoolean(RawInput("f0", party)), D.SecretInteger(RawInput("x", party)), D.PublicBoolean(RawInput("f2", party))])
    rec = D.Object.new({"flag": D.SecretBoolean(RawInput("f3", party)), "limit": D.SecretInteger(RawInput("y", party))})
    reads = [("settings = NTuple.new([Boolean(True), ..]); settings[0]; record = NTuple.new([secret flag, ..]); record[0]", lambda: record[0]),
             ("… record[-1]", lambda: record[-1]), ("… record[1] < Integer(5)", lambda: record[1] < D.Integer(5)),
             ("cfg = Object.new({'flag': Boolean(True), ..}); cfg.flag; rec = Object.new({'flag': secret flag, ..}); rec.flag", lambda: rec.flag),
             ("… rec.limit > Integer(1)", lambda: rec.limit > D.Integer(1))]
    for text, f in reads:
        n += 1
        try:
            v = f()
        except Exception as exc:  # pylint: disable=broad-except
            bad.append((text, f"raised {type(exc).__name__}"))
            continue
        if kind(lambda v=v: bool(v)) != "raises" or kind(lambda v=v: 1 if v else 2) != "raises":
            bad.append((text, f"returned a {type(v).__name__} whose truth value Python can read: the program branches on a member of another container"))
    reset_globals()
    return bad, n


def in_fresh_interpreter(call):
    """evaluate `c07.<call>` (returning (bad, n)) in a new interpreter"""
    import subprocess
    env = dict(os.environ, PYTHONDONTWRITEBYTECODE="1")
    p = subprocess.run([sys.executable, "-c", "import json; from nv.props import c07; print(json.dumps(c07.%s))" % call],
                       env=env, capture_output=True, text=True, timeout=900)
    try:
        b, k = json.loads(p.stdout.strip().split("\n")[-1])
    except (ValueError, IndexError):
        raise core.Infra(f"{call} failed in a new interpreter: " + (p.stderr or p.stdout)[-400:])
    return [tuple(x) for x in b], k


def recycled_fresh(rounds, seeds=(0, 1, 2)):
    """`recycled_results` in new interpreters (what is allocated where depends on everything the process did before; a new
    interpreter is what a user's compilation is), under several hash seeds"""
    import subprocess
    bad, n = [], 0
    for seed in seeds:
        env = dict(os.environ, PYTHONHASHSEED=str(seed), PYTHONDONTWRITEBYTECODE="1")
        p = subprocess.run([sys.executable, "-c", "import json; from nv.props import c07; print(json.dumps(c07.recycled_results(%d)))" % rounds],
                           env=env, capture_output=True, text=True, timeout=900)
        try:
            b, k = json.loads(p.stdout.strip().split("\n")[-1])
        except (ValueError, IndexError):
            raise core.Infra("recycled_results failed in a new interpreter: " + (p.stderr or p.stdout)[-400:])
        bad += [tuple(x) for x in b]
        n += k
        if bad:
            break
    return bad, n


def compound_results():
    """N-tuples and objects of every shape a program writes — literal members, non-literal members, nested, fields named
    like the attributes the wrappers themselves carry (`value`, `values`, `child`, `size`, `mode`) — have no truth value and
    answer no membership test: `if record`, `not record`, `probe in record` raise whatever the members are.  (A compound of
    literals only is still an operation of the program, not a Python constant.)"""
    import nada_dsl as D
    from nada_dsl.program_io import Input as RawInput
    bad, n = [], 0
    reset_globals()
    party = D.Party("p")

    def sec(name):
        return D.SecretInteger(RawInput(name, party))
    shapes = {}
    try:
        shapes["NTuple.new([secret, Integer(5)])"] = D.NTuple.new([sec("a"), D.Integer(5)])
        shapes["NTuple.new([secret, secret])"] = D.NTuple.new([sec("b"), sec("c")])
        for field in ("value", "values", "child", "size", "mode", "base_type", "plain"):
            for lit_text, lit in (("Integer(5)", D.Integer(5)), ("Boolean(True)", D.Boolean(True)), ("Integer(0)", D.Integer(0))):
                shapes[f"Object.new({{'{field}': {lit_text}, 'owner': secret}})"] = D.Object.new({field: lit, "owner": sec(f"o{field}{lit_text}")})
            shapes[f"Object.new({{'{field}': secret}})"] = D.Object.new({field: sec("s" + field)})
        inner = D.Object.new({"value": D.Integer(7), "k": sec("k")})
        shapes["NTuple.new([Object.new({'value': Integer(7), 'k': secret}), secret])[0]"] = D.NTuple.new([inner, sec("d")])[0]
        shapes["Object.new({'rec': Object.new({'value': Integer(7), 'k': secret})}).rec"] = D.Object.new({"rec": inner}).rec
        shapes["NTuple.new([NTuple.new([secret, secret]), secret])[0]"] = D.NTuple.new([D.NTuple.new([sec("e"), sec("f")]), sec("g")])[0]
        shapes["Object.new({'pair': NTuple.new([secret, secret])}).pair"] = D.Object.new({"pair": D.NTuple.new([sec("h"), sec("i")])}).pair
    except Exception as exc:  # pylint: disable=broad-except
        return [("construction of the compound shapes", f"{type(exc).__name__}: {exc}")], 0
    probe = sec("probe")
    for text, x in shapes.items():
        routes = {
            "bool(x)": lambda x=x: bool(x), "not x": lambda x=x: not x, "x and 1": lambda x=x: x and 1, "x or 1": lambda x=x: x or 1,
            "1 if x else 2": lambda x=x: 1 if x else 2, "while x": lambda x=x: _while(x), "any([x])": lambda x=x: any([x]),
            "all([x])": lambda x=x: all([x]), "filter(None, [x])": lambda x=x: list(filter(None, [x])),
            "probe in x": lambda x=x: probe in x, "probe not in x": lambda x=x: probe not in x,
            "1 if probe in x else 2": lambda x=x: 1 if probe in x else 2,
        }
        for rname, thunk in routes.items():
            n += 1
            if kind(thunk) != "raises":
                bad.append((f"x = {text}; {rname}", "did not raise: Python read a truth value / a membership answer from a compound Nada value"))
    reset_globals()
    return bad, n


def function_results():
    """What a Nada function hands back to its caller — the result of a call, of `reduce`, an element type of `map` — is a
    run-time value whatever class the function declares: for every declared return class (the literal classes too) and every
    mix of literal and non-literal parameters, either the declaration / the use is rejected or the truth test of the result raises."""
    import nada_dsl as D
    from nada_dsl.program_io import Input as RawInput
    bad, n = [], 0
    bases = {"bool": (D.Boolean, D.PublicBoolean, D.SecretBoolean, lambda: D.Boolean(False)),
             "int": (D.Integer, D.PublicInteger, D.SecretInteger, lambda: D.Integer(0)),
             "uint": (D.UnsignedInteger, D.PublicUnsignedInteger, D.SecretUnsignedInteger, lambda: D.UnsignedInteger(0))}
    for base, (L, P, S, zero) in bases.items():
        for R in (L, P, S):
            for X in (L, P, S):
                reset_globals()
                party = D.Party("p")
                src = S(RawInput("src", party))
                arr = D.Array(S(RawInput("arr", party)), size=3)
                shapes = {
                    "keep(acc: R, x: X) -> R: return acc": (lambda acc, x: acc, {"acc": R, "x": X}),
                    "first(x: X, acc: R) -> R: return acc": (lambda x, acc: acc, {"x": X, "acc": R}),
                }
                for text, (body, args_ty) in shapes.items():
                    label = text.replace("R", R.__name__).replace("X", X.__name__)
                    try:
                        f = D.nada_fn(body, args_ty=args_ty, return_ty=R)
                    except Exception:  # pylint: disable=broad-except
                        continue          # the declaration is rejected: fine
                    init = zero() if R is L else R(RawInput(f"init{n}", party))
                    uses = {"arr.reduce(f, init)": lambda f=f, init=init: arr.reduce(f, init)} if list(args_ty)[0] == "acc" else {}
                    uses["f(v, w)"] = (lambda f=f, init=init: f(init, src)) if list(args_ty)[0] == "acc" else (lambda f=f, init=init: f(src, init))
                    for utext, use in uses.items():
                        try:
                            r = use()
                        except Exception:  # pylint: disable=broad-except
                            continue      # the use is rejected: fine
                        n += 1
                        from nada_dsl.nada_types import NadaType
                        if not isinstance(r, NadaType):
                            bad.append((f"{label}; {utext}", f"returned the plain Python value {r!r}"))
                        elif kind(lambda r=r: bool(r)) != "raises" or kind(lambda r=r: 1 if r else 2) != "raises":
                            bad.append((f"{label}; {utext}", f"returned a {type(r).__name__} whose truth value Python can read: `if {utext}:` silently takes a "
                                                            "branch although the result exists only when the program runs"))
    reset_globals()
    return bad, n


def run(res, tier):
    rec_bad, nrec = recycled_fresh(12 if tier == "quick" else 100)
    for text, why in rec_bad[:2]:
        res.violation({"property": "C07", "kind": "recycled", "expr": text, "why": why}, f"{text}: {why}")
    shared_bad, nshared = in_fresh_interpreter("shared_members()")
    for text, why in shared_bad[:3]:
        res.violation({"property": "C07", "kind": "shared-member", "expr": text, "why": why}, f"{text}: {why}")
    alias_bad, nalias = aliasing_results()
    for text, why in alias_bad[:4]:
        res.violation({"property": "C07", "kind": "aliased-member", "expr": text, "why": why}, f"{text}: {why}")
    fn_bad, nfn = function_results()
    for text, why in fn_bad[:4]:
        res.violation({"property": "C07", "kind": "function-result", "expr": text, "why": why}, f"{text}: {why}")
    comp_bad, ncomp = compound_results()
    for text, why in comp_bad[:4]:
        res.violation({"property": "C07", "kind": "compound", "expr": text, "why": why}, f"{text}: {why}")
    mixed, nmixed = mixed_results()
    for text, why in mixed[:6]:
        res.violation({"property": "C07", "kind": "mixed-result", "expr": text, "why": why}, f"{text}: {why}")
    arr_rows = array_provenances()
    for prov, construct, outc in arr_rows:
        if prov == "__error__":
            res.broken.append({"decl": "C07 array provenances", "msg": outc})
        elif outc != "raises":
            res.violation({"property": "C07", "kind": "array-walk", "provenance": prov, "construct": construct, "observed": outc},
                          f"array [{prov}] {construct}: walking over / testing a Nada array did not raise")
    pred = {}
    for c, r, o, outc in core.driver([{"k": "c07routes"}])[0]:
        pred[(c, r, o)] = outc
    classes = T3.value_classes()
    evals, nontrivial, diffs = 0, set(), []
    samples = []
    for cls in classes:
        name = cls.__name__
        literal = bool(getattr(cls, "is_literal", lambda: False)())
        for prov in ("direct", "opresult", "fnparam"):
            try:
                real = real_routes(cls, prov)
            except Exception as exc:  # pylint: disable=broad-except
                res.broken.append({"decl": "C07 route execution", "msg": f"{name}/{prov}: {type(exc).__name__}: {exc}"})
                continue
            if real is None:
                continue
            for (route, other), outc in real.items():
                evals += 1
                nontrivial.add((name, route, other))
                # oracle on the real code
                if not literal:
                    bad = None
                    if route in ("truth",) and outc != "raises":
                        bad = "a truth test of a non-literal Nada value did not raise"
                    elif route == "iter" and name == "Array" and outc != "raises":
                        bad = "iterating over a Nada array did not raise"
                    elif route == "contains" and outc != "raises":
                        bad = "a membership test with a non-literal probe (probe in x) did not raise"
                    elif route == "hash" and outc != "raises":
                        bad = "hashing a non-literal Nada value did not raise: membership in a set / dict silently answers by identity"
                    elif route in OPS and outc == "silent":
                        bad = f"{route} against a {other} operand returned a plain Python value"
                    elif route.endswith("+truth") and outc != "raises":
                        bad = f"a comparison ({route[:-6]}, other = {other}) used as a condition / for ordering / membership did not raise"
                    if bad:
                        res.violation({"property": "C07", "kind": "route", "class": name, "route": route, "other": other,
                                       "provenance": prov, "observed": outc},
                                      f"{name} [{prov}] {route} {other}: {bad}")
                # correspondence: protocol model vs CPython
                p = pred.get((name, route, other))
                if p is not None and p != outc and not (route == "hash"):
                    diffs.append({"class": name, "route": route, "other": other, "provenance": prov, "model": p, "real": outc})
            if len(samples) < 3:
                samples.append({"class": name, "provenance": prov, "routes": {f"{r}/{o}": v for (r, o), v in list(real.items())[:6]}})
    if diffs:
        res.broken.append({"decl": "Py/Protocol.lean vs CPython (route predictions)", "msg": str(diffs[:4])[:600]})
    res.coverage.update({
        "evaluations": evals, "distinct_nontrivial": len(nontrivial), "exhaustive": True,
        "rule": "every Nada value class found by reflection x {direct, operation result, nada_fn parameter} x every route "
                "(10 truth constructs, 6 iteration constructs, 4 hashing constructs, 6 comparisons x 6 kinds of other operand, "
                "each also used as condition / ordering / membership); non-trivial = distinct (class, route, other) triples",
        "classes": [c.__name__ for c in classes],
        "protocol_model_disagreements": len(diffs),
        "mixed_literal_operand_results_checked": nmixed, "compound_value_routes_checked": ncomp, "function_results_checked": nfn, "comparisons_after_dropped_literals": nrec,
        "array_walks_checked": len(arr_rows), "array_provenances": sorted({p for p, _, _ in arr_rows}),
        "samples": samples,
    })
    res.assumptions += ["CPython looks special methods up on the type (instance attributes cannot change them)",
                        "the list of constructs per route is finite and hand-written (DESIGN §6 C07)"]


def replay(obj):
    if obj.get("kind") == "shared-member":
        bad = in_fresh_interpreter("shared_members()")[0]
        print(bad or "ok")
        if bad:
            print("VIOLATION property=C07 replay=(replayed)")
        return 1 if bad else 0
    if obj.get("kind") == "recycled":
        bad = recycled_fresh(100)[0]
        print(bad or "ok")
        if bad:
            print("VIOLATION property=C07 replay=(replayed)")
        return 1 if bad else 0
    if obj.get("kind") == "function-result":
        bad = [b for b in function_results()[0] if b[0] == obj["expr"]]
        print(bad or "ok")
        if bad:
            print("VIOLATION property=C07 replay=(replayed)")
        return 1 if bad else 0
    if obj.get("kind") == "compound":
        bad = [b for b in compound_results()[0] if b[0] == obj["expr"]]
        print(bad or "ok")
        if bad:
            print("VIOLATION property=C07 replay=(replayed)")
        return 1 if bad else 0
    if obj.get("kind") == "aliased-member":
        bad = [b for b in aliasing_results()[0] if b[0] == obj["expr"]]
        print(bad or "ok")
        if bad:
            print("VIOLATION property=C07 replay=(replayed)")
        return 1 if bad else 0
    if obj.get("kind") == "mixed-result":
        bad = [b for b in mixed_results()[0] if b[0] == obj["expr"]]
        print(bad or "ok")
        if bad:
            print("VIOLATION property=C07 replay=(replayed)")
        return 1 if bad else 0
    if obj.get("kind") == "array-walk":
        bad = [r for r in array_provenances() if r[0] == obj["provenance"] and r[1] == obj["construct"] and r[2] != "raises"]
        print(bad or "ok")
        if bad:
            print("VIOLATION property=C07 replay=(replayed)")
        return 1 if bad else 0
    cls = next(c for c in T3.value_classes() if c.__name__ == obj["class"])
    real = real_routes(cls, obj["provenance"])
    outc = real.get((obj["route"], obj["other"]))
    print(obj["class"], obj["route"], obj["other"], "->", outc)
    bad = outc == "silent" or (obj["route"] in ("truth", "hash") and outc != "raises") or \
        (obj["route"].endswith("+truth") and outc != "raises") or (obj["route"] == "iter" and outc != "raises")
    if bad:
        print("VIOLATION property=C07 replay=(replayed)")
    return 1 if bad else 0
