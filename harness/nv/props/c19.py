"""C19 — source references designate the user line that created each MIR element."""
import os
import shutil
import tempfile
from .. import core
from ..extract import t4_frames as T4
from ..gen import rng as R
from ..real.env import reset_globals

MODULE = "NadaVerif.Props.C19"
TRANSLATORS = None
THEOREMS = [f"NadaVerif.C19.{n}" for n in ("internAll_own", "internAll_resolves", "internAll_nodup", "sourcesOf_own") + (
    "drop_offset", "lineInfo_exact", "lineInfo_missing", "intern_get", "intern_stable", "resolve_user", "frames_user",
    "call_sites_covered")]

ALPHABET = ["a", "b", " ", "    ", "#", "é", "漢", "\t", "\x0c", " ", "\x1c", "x = 1", "(", "'", "\\"]


class _Code:
    def __init__(self, fn):
        self.co_filename = fn


class _Frame:
    def __init__(self, fn):
        self.f_code = _Code(fn)


def real_line_info(text, lineno, tmpdir, idx):
    from nada_dsl import source_ref
    from nada_dsl.source_ref import SourceRef
    path = os.path.join(tmpdir, f"t{idx}.py")
    with open(path, "w", encoding="utf-8", newline="") as f:
        f.write(text)
    source_ref.USED_SOURCES.pop(f"t{idx}.py", None)
    off, ln = SourceRef.try_get_line_info(_Frame(path), lineno)
    src = source_ref.USED_SOURCES.get(f"t{idx}.py", "")
    return off, ln, src


def whole_mirs(res, tier):
    from ..corr import k10, k12
    from ..gen import programs
    from ..oracle import srcref
    n = 40 if tier == "quick" else 800
    stats = {"programs": 0, "mirs": 0, "elements_checked": 0, "elements_with_known_statement": 0}
    kinds = list(programs.Gen.SCENARIOS)
    for idx in range(n):
        scen = kinds[idx % len(kinds)] if idx % 2 == 0 else None
        m, _ = programs.generate("C19", idx, max_cmds=20, scenario=scen)
        facts = k12.reg_facts(m)
        rr = k10.render_scripts(m.events, m.results, f"c19x{idx}")
        if rr is None:
            continue
        files, progs = rr
        outs, _ = k10.run_scripts(m.events, m.results, f"c19x{idx}", via="script", raw=True)
        stats["programs"] += 1
        op_lines, per_prog = k10.expected_lines(m.events, facts, files, progs)
        texts = dict(files)
        for (fn, spec), o in zip(progs, outs):
            if "raw" not in o:
                continue
            stats["mirs"] += 1
            mir = o["raw"]
            stats["elements_checked"] += sum(1 for _ in srcref.elements(mir))
            stats["elements_with_known_statement"] += sum(1 for _, _, k, nm in srcref.elements(mir)
                                                          if (k is not None and k in op_lines) or (nm in per_prog[fn]))
            for kind, text in srcref.check(mir, texts, op_lines, per_prog[fn])[:3]:
                res.violation({"property": "C19", "kind": "mir-" + kind, "text": text, "events": m.events, "program_file": fn,
                               "files": files}, f"{fn} ({len(progs)} programs compiled in one process): {text}"[:400])
        if len(res.violations) > 10:
            break
    return stats


def same_basename_sequences(res, tier):
    """Programs stored under one file name in different directories (every project's `main.py`), with different texts and
    line layouts, compiled one after the other in one new interpreter: each MIR's references must delimit lines of *its own*
    file, whose text — not an earlier file's — is the one embedded."""
    import json
    import os
    import shutil
    import subprocess
    import sys
    import tempfile
    from ..gen import programs, render
    from ..oracle import srcref
    n = 4 if tier == "quick" else 40
    srcs, idx = [], 0
    while len(srcs) < n + 1 and idx < 10 * n:
        m, _ = programs.generate("C19sb", idx, max_cmds=14)
        idx += 1
        src = render.render(m.events, m.results)
        if src is not None and src not in srcs:
            srcs.append(src)
    reset_globals()
    stats = {"sequences": 0, "mirs": 0}
    tmp = tempfile.mkdtemp(prefix="nvc19sb")
    try:
        for i in range(max(0, len(srcs) - 1)):
            a = srcs[i]
            texts = [a, "# revised layout\n\n\n" + srcs[i + 1], "\n" * 2 + a.replace("\n\n", "\n\n\n", 1),
                     "# saved on another system\n" + srcs[i + 1], "# pasted from an old editor\n# (classic line ending above)\n\n" + a]
            paths = []
            for k, text in enumerate(texts):
                os.makedirs(os.path.join(tmp, f"s{i}", f"v{k}"), exist_ok=True)
                path = os.path.join(tmp, f"s{i}", f"v{k}", "main.py")
                # (every other sequence: the third file is saved with a byte order mark, which is not part of its text; the
                # fourth file has CR LF line endings and the fifth a lone CR after its first line — Python reads all three
                # as line ends, and the lines of a program are the interpreter's lines)
                stored = text.replace("\n", "\r\n") if k == 3 else text.replace("\n", "\r", 1) if k == 4 else text
                with open(path, "w", encoding="utf-8-sig" if (k == 2 and i % 2 == 0) else "utf-8", newline="") as f:
                    f.write(stored)
                paths.append(path)
            env = dict(os.environ, PYTHONPATH=core.REPO + os.pathsep + os.path.join(core.VERIF, "harness"), PYTHONDONTWRITEBYTECODE="1")
            # ... and, last, the file just compiled is *edited in place* (its text replaced by the second one's) and compiled again
            edited = os.path.join(tmp, f"s{i}", "edited.txt")
            with open(edited, "w", encoding="utf-8") as f:
                f.write(texts[1])
            p = subprocess.run([sys.executable, "-m", "nv.real.fresh_hist", "script"] + paths + [f"@write:{paths[-1]}={edited}", paths[-1]],
                               cwd=tmp, env=env, capture_output=True, text=True, timeout=300)
            try:
                outs = json.loads(p.stdout)
            except ValueError:
                raise core.Infra(f"fresh_hist failed: {(p.stderr or p.stdout)[-300:]}")
            texts = texts + [texts[1]]
            stats["sequences"] += 1
            for k, (o, text) in enumerate(zip(outs, texts)):
                if "mir" not in o:
                    continue
                stats["mirs"] += 1
                mir = o["mir"]
                bad = srcref.check(mir, {"main.py": text}, {}, {})[:2]
                if mir.get("source_files", {}).get("main.py") not in (None, text):
                    bad.insert(0, ("stale-text", "the embedded text of main.py is not the text of the file that was compiled"))
                for kind, t in bad:
                    res.violation({"property": "C19", "kind": "same-name-" + kind, "text": t, "texts": texts, "position": k, "last_is_edit_in_place": True},
                                  f"v{k}/main.py, compiled after {k} other file(s) named main.py in one process: {t}"[:400])
    finally:
        shutil.rmtree(tmp, ignore_errors=True)
    return stats


def edited_helper(res):
    """A helper module next to the program is edited (lines inserted above its function) between two compilations of the
    program in one process: the operation the helper creates must be designated in the helper's text as it is embedded."""
    import json
    import os
    import shutil
    import subprocess
    import sys
    import tempfile
    tmp = tempfile.mkdtemp(prefix="nvc19eh")
    n = 0
    try:
        main = "from nada_dsl import *\nimport tariff\n\n\ndef nada_main():\n    p = Party(name='P')\n    a = SecretInteger(Input(name='a', party=p))\n    return [Output(tariff.double(a), 'o', p)]\n"
        old = "def double(x):\n    return x + x\n"
        new = "# a note\n# and another\n\n\ndef double(x):\n    return x + x\n"
        for variant in ("edit", "longer"):
            d = os.path.join(tmp, variant)
            os.makedirs(d)
            mp, hp, ep = os.path.join(d, "main.py"), os.path.join(d, "tariff.py"), os.path.join(d, "edited.txt")
            for path, text in ((mp, main), (hp, old), (ep, new if variant == "edit" else new + "\n\nUNUSED = 1\n")):
                with open(path, "w", encoding="utf-8") as f:
                    f.write(text)
            env = dict(os.environ, PYTHONPATH=core.REPO + os.pathsep + os.path.join(core.VERIF, "harness"), PYTHONDONTWRITEBYTECODE="1")
            p = subprocess.run([sys.executable, "-m", "nv.real.fresh_hist", "script", mp, f"@write:{hp}={ep}", mp], cwd=d, env=env,
                               capture_output=True, text=True, timeout=120)
            try:
                outs = json.loads(p.stdout)
            except ValueError:
                raise core.Infra(f"fresh_hist failed: {(p.stderr or p.stdout)[-300:]}")
            with open(ep, encoding="utf-8") as f:
                edited = f.read()
            for k, (o, helper_text) in enumerate(zip(outs, (old, edited))):
                n += 1
                if "mir" not in o:
                    res.violation({"property": "C19", "kind": "edited-helper", "text": f"compilation {k + 1} failed: {o.get('msg')}", "variant": variant},
                                  f"program importing a helper module, compilation {k + 1}: {o.get('msg')}")
                    continue
                mir = o["mir"]
                # the references the MIR's operations actually use (the table also keeps entries of earlier compilations)
                used = set()
                for table in [mir.get("operations", {})] + [f.get("operations", {}) for f in mir.get("functions", [])]:
                    for op in table.values():
                        for body in op.values():
                            if isinstance(body, dict) and "source_ref_index" in body:
                                used.add(body["source_ref_index"])
                refs = [r for i, r in enumerate(mir.get("source_refs", [])) if i in used and r.get("file") == "tariff.py"]
                if not refs:
                    res.violation({"property": "C19", "kind": "edited-helper", "variant": variant, "compilation": k + 1, "text": "no operation refers to tariff.py"},
                                  f"helper module edited between two compilations (compilation {k + 1}): no operation of the MIR is attributed to tariff.py")
                shown = mir.get("source_files", {}).get("tariff.py")
                for r in refs:
                    text = shown if shown is not None else helper_text
                    got = text[r["offset"]:r["offset"] + r["length"]]
                    if "x + x" not in got or shown not in (None, helper_text):
                        res.violation({"property": "C19", "kind": "edited-helper", "variant": variant, "compilation": k + 1, "reference": r,
                                       "text": f"the Addition created by `return x + x` of tariff.py is designated as line {r['lineno']} = {got!r}"},
                                      f"helper module edited between two compilations of the program in one process (compilation {k + 1}): the "
                                      f"operation created by `return x + x` is designated as tariff.py line {r['lineno']}: {got!r}"[:400])
                        break
    finally:
        shutil.rmtree(tmp, ignore_errors=True)
    return n


DUPLICATE_LINES = ("from nada_dsl import *\n\n\ndef nada_main():\n    p = Party(name='P')\n    a = SecretInteger(Input(name='a', party=p))\n    acc = a\n"
                   "    acc = acc + a\n    acc = acc + a\n    t = acc < a + a\n    t = acc < a\n    acc = acc + a\n"
                   "    return [Output(acc, 'o', p), Output(t, 'q', p)]\n")


def duplicate_lines(res):
    """statements whose text equals, or begins, an earlier line of the file (an unrolled accumulation): each element is
    designated at its own line's position"""
    import json
    import os
    import shutil
    import subprocess
    import sys
    import tempfile
    from ..oracle import srcref
    tmp = tempfile.mkdtemp(prefix="nvc19dl")
    try:
        path = os.path.join(tmp, "main.py")
        with open(path, "w", encoding="utf-8") as f:
            f.write(DUPLICATE_LINES)
        env = dict(os.environ, PYTHONPATH=core.REPO + os.pathsep + os.path.join(core.VERIF, "harness"), PYTHONDONTWRITEBYTECODE="1")
        p = subprocess.run([sys.executable, "-m", "nv.real.fresh_hist", "script", path], cwd=tmp, env=env, capture_output=True, text=True, timeout=120)
        try:
            out = json.loads(p.stdout)[0]
        except (ValueError, IndexError):
            raise core.Infra(f"fresh_hist failed: {(p.stderr or p.stdout)[-300:]}")
        if "mir" not in out:
            res.violation({"property": "C19", "kind": "duplicate-lines", "text": str(out.get("msg"))}, f"program with repeated lines does not compile: {out.get('msg')}")
            return 0
        lines_of_additions = sorted(r["lineno"] for i, r in enumerate(out["mir"].get("source_refs", [])) if r.get("file") == "main.py")
        for kind, t in srcref.check(out["mir"], {"main.py": DUPLICATE_LINES}, {}, {})[:2]:
            res.violation({"property": "C19", "kind": "duplicate-lines", "check": kind, "text": t, "source": DUPLICATE_LINES}, f"program with repeated lines: {t}"[:400])
        return len(lines_of_additions)
    finally:
        shutil.rmtree(tmp, ignore_errors=True)


FIRST_LINE_HELPER = "def double(x): return x + x\ndef twice(x):\n    return double(double(x))\n"
FIRST_LINE_MAIN = ("from nada_dsl import *; P = Party(name='P')\nfrom helpers import twice, double\n\n\ndef nada_main():\n"
                   "    a = SecretInteger(Input(name='a', party=P))\n    b = twice(a)\n    c = double(b) * a\n    return [Output(c, 'o', P)]\n")


def first_lines(res):
    """elements created on the *first* line of a file (offset 0 is that line's correct offset): a helper whose line 1 holds the
    statement that creates every Addition, a party declared on line 1 of the program"""
    import json
    import os
    import shutil
    import subprocess
    import sys
    import tempfile
    from ..oracle import srcref
    tmp = tempfile.mkdtemp(prefix="nvc19fl")
    try:
        for name, text in (("main.py", FIRST_LINE_MAIN), ("helpers.py", FIRST_LINE_HELPER)):
            with open(os.path.join(tmp, name), "w", encoding="utf-8") as f:
                f.write(text)
        env = dict(os.environ, PYTHONPATH=core.REPO + os.pathsep + os.path.join(core.VERIF, "harness"), PYTHONDONTWRITEBYTECODE="1")
        p = subprocess.run([sys.executable, "-m", "nv.real.fresh_hist", "script", os.path.join(tmp, "main.py")], cwd=tmp, env=env,
                           capture_output=True, text=True, timeout=120)
        try:
            out = json.loads(p.stdout)[0]
        except (ValueError, IndexError):
            raise core.Infra(f"fresh_hist failed: {(p.stderr or p.stdout)[-300:]}")
        if "mir" not in out:
            res.violation({"property": "C19", "kind": "first-line", "text": str(out.get("msg"))}, f"program with statements on line 1 does not compile: {out.get('msg')}")
            return 0
        mir = out["mir"]
        files = {"main.py": FIRST_LINE_MAIN, "helpers.py": FIRST_LINE_HELPER}
        bad = srcref.check(mir, files, {}, {("party", "P"): ("main.py", 1)})[:2]
        refs = mir.get("source_refs", [])
        n = 0
        for k, op in mir.get("operations", {}).items():
            for name, body in op.items():
                i = body.get("source_ref_index")
                if name == "Addition" and isinstance(i, int) and 0 <= i < len(refs):
                    n += 1
                    if (refs[i].get("file"), refs[i].get("lineno")) != ("helpers.py", 1):
                        bad.append(("wrong-line", f"operation Addition#{k}: created by the statement at helpers.py:1 ('def double(x): return x + x'), "
                                                  f"the reference says {refs[i].get('file')}:{refs[i].get('lineno')}"))
        for kind, t in bad[:3]:
            res.violation({"property": "C19", "kind": "first-line", "check": kind, "text": t, "files": files}, f"statements on the first line of a file: {t}"[:400])
        return n
    finally:
        shutil.rmtree(tmp, ignore_errors=True)


def intern_correspondence(res, tier):
    """Tie of `Runtime.internAll` (Lean) to `SourceRef.to_index`: during every compilation of a stream of generated programs
    (several compilations per process, several per program) the calls of `to_index` are recorded — the reference asked for and
    the index returned; the Lean function, started from the empty table, must return the same indices and the table the MIR
    carries as `source_refs`.  A table kept from one compilation to the next shows up as a disagreement here."""
    from nada_dsl.source_ref import SourceRef
    from ..gen import programs
    from ..real import interp
    n = 60 if tier == "quick" else 1200
    calls, comps = [], []
    orig_index, orig_compile = SourceRef.to_index, interp.nada_dsl_to_nada_mir

    def to_index(self):
        i = orig_index(self)
        calls.append(([self.lineno, self.offset, self.file, self.length], i))
        return i

    def compile_(outputs):
        del calls[:]
        mir = orig_compile(outputs)
        comps.append((list(calls), [[r["lineno"], r["offset"], r["file"], r["length"]] for r in mir["source_refs"]]))
        return mir
    SourceRef.to_index, interp.nada_dsl_to_nada_mir = to_index, compile_
    try:
        for idx in range(n):
            programs.generate("C19i", idx, max_cmds=18, scenario=programs.Gen.SCENARIOS[idx % len(programs.Gen.SCENARIOS)] if idx % 3 == 0 else None)
    finally:
        SourceRef.to_index, interp.nada_dsl_to_nada_mir = orig_index, orig_compile
        reset_globals()
    reqs = [{"k": "intern", "table": [], "refs": [c[0] for c in cs]} for cs, _ in comps]
    answers = core.driver(reqs) if reqs else []
    bad = 0
    for (cs, table), ans in zip(comps, answers):
        if "error" in ans:
            raise core.Infra(f"intern request rejected: {ans}")
        if ans["indices"] != [c[1] for c in cs] or ans["table"] != table:
            bad += 1
            if bad <= 2:
                k = next((j for j, (a, b) in enumerate(zip(ans["indices"], [c[1] for c in cs])) if a != b), None)
                res.broken.append({"decl": "Runtime.internAll (Lean) vs SourceRef.to_index / source_refs of the emitted MIR",
                                   "msg": (f"call {k}: reference {cs[k][0]} got index {cs[k][1]}, the model numbers it {ans['indices'][k]}" if k is not None
                                           else f"the MIR's source_refs has {len(table)} entries, the model's table {len(ans['table'])}")})
    return {"compilations": len(comps), "to_index_calls": sum(len(cs) for cs, _ in comps), "disagreements": bad}


def run(res, tier):
    nedited = edited_helper(res)
    ndup = duplicate_lines(res)
    evals, nontrivial = 0, set()
    samples = []
    # 1. the entry-point catalogue (also what T4 turned into the FrameTable)
    rows, reached = T4.run_catalogue()
    for name, f_ok, l_ok, t_ok in rows:
        evals += 1
        nontrivial.add(("entry", name))
        if not (f_ok and l_ok and t_ok):
            res.violation({"property": "C19", "kind": "entry", "entry": name, "file_ok": f_ok, "line_ok": l_ok, "text_ok": t_ok},
                          f"{name}: source reference does not designate the user's statement "
                          f"(file {'ok' if f_ok else 'WRONG'}, line {'ok' if l_ok else 'WRONG'}, extent {'ok' if t_ok else 'WRONG'})")
    unreached = [s for s in T4.static_call_sites() if s not in reached]
    if unreached:
        res.broken.append({"decl": "T4 catalogue coverage", "msg": f"back_frame() call sites never reached: {unreached[:5]}"})
    # 2. the same program text under two different file names, and twice in one process (no reset)
    reset_globals()
    for fname in ("first_copy_prog.py", "second_copy_prog.py", "first_copy_prog.py"):
        rows2, _ = T4.run_catalogue(filename=fname, reset=False)
        for name, f_ok, l_ok, t_ok in rows2:
            evals += 1
            if not (f_ok and l_ok and t_ok):
                res.violation({"property": "C19", "kind": "entry-second-file", "entry": name, "file": fname,
                               "history": ["first_copy_prog.py", "second_copy_prog.py", "first_copy_prog.py"]},
                              f"{name} in {fname} (same text compiled under several names in one process): reference does "
                              f"not designate this file's statement (file ok={f_ok}, line ok={l_ok}, extent ok={t_ok})")
    reset_globals()
    # 2a. the program lives under directories named like the package, like site-packages, with dots and spaces
    for sub_ in ("nada_dsl/examples", "site-packages/nada_dsl", "my.project/nada dsl", "src/nada_dsl_programs"):
        rows3, _ = T4.run_catalogue(filename="prog_in_dir.py", subdir=sub_)
        for name, f_ok, l_ok, t_ok in rows3:
            evals += 1
            if not (f_ok and l_ok and t_ok):
                res.violation({"property": "C19", "kind": "entry-dir", "entry": name, "dir": sub_},
                              f"{name} in a program stored under .../{sub_}/: reference does not designate the user's statement "
                              f"(file ok={f_ok}, line ok={l_ok}, extent ok={t_ok})")
                break
    reset_globals()
    # 2b. whole MIRs: generated programs compiled from files through compile_script, several programs per process
    #     sharing modules (K10 rendering); every element of every MIR is checked against the program text
    mir_stats = whole_mirs(res, tier)
    sb_stats = same_basename_sequences(res, tier)
    intern_stats = intern_correspondence(res, tier)
    first_line_ops = first_lines(res)
    evals += mir_stats["elements_checked"]
    reset_globals()
    # 3. line arithmetic: model (Lean lineInfo) vs real try_get_line_info on random texts, and the
    #    oracle `text[offset:offset+length] == line` directly
    rng = R.make("C19")
    n = 150 if tier == "quick" else 4000
    tmpdir = tempfile.mkdtemp(prefix="nvc19")
    reqs, cases = [], []
    try:
        for idx in range(n):
            nl = rng.randint(1, 8)
            lines = ["".join(rng.choice(ALPHABET) for _ in range(rng.randint(0, 6))) for _ in range(nl)]
            text = "\n".join(lines)
            lineno = rng.choice([1, nl, nl, rng.randint(1, nl), nl + 1, 0]) if rng.random() < 0.9 else rng.randint(0, nl + 2)
            off, ln, src = real_line_info(text, lineno, tmpdir, idx)
            cases.append((lines, lineno, off, ln, src, text))
            reqs.append({"k": "lineinfo", "lines": lines, "lineno": max(lineno, 0)})
        answers = core.driver(reqs)
    finally:
        shutil.rmtree(tmpdir, ignore_errors=True)
        reset_globals()
    diffs = []
    for (lines, lineno, off, ln, src, text), ans in zip(cases, answers):
        evals += 1
        if 1 <= lineno <= len(lines):
            nontrivial.add(("line", tuple(lines), lineno))
            want = text.split("\n")[lineno - 1]
            if src[off:off + ln] != want:
                res.violation({"property": "C19", "kind": "line-extent", "text": text, "lineno": lineno, "offset": off, "length": ln,
                               "delimited": src[off:off + ln], "line": want},
                              f"line {lineno} of {text!r}: offset/length delimit {src[off:off + ln]!r}, the line is {want!r}")
        if lineno >= 1 and [off, ln] != ans:   # frames always have f_lineno >= 1
            diffs.append({"lines": lines, "lineno": lineno, "real": [off, ln], "model": ans})
    if diffs:
        res.broken.append({"decl": "K9 (Runtime/SourceRef.lean lineInfo vs try_get_line_info)", "msg": str(diffs[:3])[:500]})
    samples = [{"entry": r[0], "ok": list(r[1:])} for r in rows[:3]] + [{"lines": c[0], "lineno": c[1], "offset": c[2], "length": c[3]} for c in cases[:2]]
    res.coverage.update({
        "evaluations": evals, "distinct_nontrivial": len(nontrivial),
        "rule": "catalogue of every DSL entry point that records a source reference (one per line of a generated user file; all "
                f"{len(T4.static_call_sites())} syntactic back_frame() call sites must be reached), run from three file names in one "
                "process; random texts (incl. form feeds, Unicode separators, tabs, non-ASCII) x line numbers (first, last, beyond) "
                "through try_get_line_info vs the Lean lineInfo; non-trivial = distinct entries / (text, existing line) pairs",
        "whole_mirs": mir_stats, "intern_correspondence": intern_stats, "first_line_operations": first_line_ops,
        "same_file_name_sequences": sb_stats,
        "catalogue_entries": len(rows), "call_sites_unreached": len(unreached), "lineinfo_disagreements": len(diffs),
        "samples": samples,
    })
    res.assumptions += ["frame objects and sys.setprofile behave as documented (CPython)",
                        "the catalogue of entry points is derived from the package's syntactic back_frame() call sites "
                        "(all must be reached) — an entry point that records no source reference at all is not noticed"]


def replay(obj):
    if obj.get("kind") == "first-line":
        class _R:
            violations = []

            def violation(self, o, text):
                self.violations.append(text)
        r = _R()
        first_lines(r)
        print(r.violations or "ok")
        if r.violations:
            print("VIOLATION property=C19 replay=(replayed)")
        return 1 if r.violations else 0
    if obj.get("kind", "").startswith("mir-"):
        from ..corr import k10, k12
        from ..oracle import srcref
        from ..real import interp
        import copy
        reset_globals()
        m = interp.run_events(copy.deepcopy(obj["events"]))
        facts = k12.reg_facts(m)
        files, progs = k10.render_scripts(m.events, m.results, "c19r")
        outs, _ = k10.run_scripts(m.events, m.results, "c19r", via="script", raw=True)
        op_lines, per_prog = k10.expected_lines(m.events, facts, files, progs)
        bad = []
        for (fn, spec), o in zip(progs, outs):
            if "raw" in o:
                bad += srcref.check(o["raw"], dict(files), op_lines, per_prog[fn])
        print(bad[:4] or "ok")
        if bad:
            print("VIOLATION property=C19 replay=(replayed)")
        return 1 if bad else 0
    if obj.get("kind", "").startswith("same-name-"):
        import json
        import subprocess
        import sys
        from ..oracle import srcref
        tmp = tempfile.mkdtemp(prefix="nvc19r")
        bad = []
        try:
            paths = []
            texts_ = obj["texts"][:-1] if obj.get("last_is_edit_in_place") else obj["texts"]
            for k, text in enumerate(texts_):
                os.makedirs(os.path.join(tmp, f"v{k}"), exist_ok=True)
                with open(os.path.join(tmp, f"v{k}", "main.py"), "w", encoding="utf-8") as f:
                    f.write(text)
                paths.append(os.path.join(tmp, f"v{k}", "main.py"))
            if obj.get("last_is_edit_in_place"):
                with open(os.path.join(tmp, "edited.txt"), "w", encoding="utf-8") as f:
                    f.write(obj["texts"][-1])
                paths += [f"@write:{paths[-1]}={os.path.join(tmp, 'edited.txt')}", paths[-1]]
            env = dict(os.environ, PYTHONPATH=core.REPO + os.pathsep + os.path.join(core.VERIF, "harness"), PYTHONDONTWRITEBYTECODE="1")
            p = subprocess.run([sys.executable, "-m", "nv.real.fresh_hist", "script"] + paths, cwd=tmp, env=env, capture_output=True, text=True, timeout=300)
            for o, text in zip(json.loads(p.stdout), obj["texts"]):
                if "mir" in o:
                    bad += srcref.check(o["mir"], {"main.py": text}, {}, {})[:2]
                    if o["mir"].get("source_files", {}).get("main.py") not in (None, text):
                        bad.append(("stale-text", "embedded text differs from the compiled file"))
        finally:
            shutil.rmtree(tmp, ignore_errors=True)
        print(bad[:3] or "ok")
        if bad:
            print("VIOLATION property=C19 replay=(replayed)")
        return 1 if bad else 0
    if obj.get("kind") == "entry-dir":
        rows, _ = T4.run_catalogue(filename="prog_in_dir.py", subdir=obj["dir"])
        bad = [r for r in rows if not all(r[1:])]
        print(bad[:3] or "ok")
        if bad:
            print("VIOLATION property=C19 replay=(replayed)")
        return 1 if bad else 0
    if obj.get("kind", "").startswith("entry"):
        rows, _ = T4.run_catalogue()
        bad = [r for r in rows if r[0] == obj["entry"] and not all(r[1:])]
        print(bad or "ok")
        if bad:
            print("VIOLATION property=C19 replay=(replayed)")
        return 1 if bad else 0
    tmpdir = tempfile.mkdtemp(prefix="nvc19")
    try:
        off, ln, src = real_line_info(obj["text"], obj["lineno"], tmpdir, 0)
    finally:
        shutil.rmtree(tmpdir, ignore_errors=True)
    bad = src[off:off + ln] != obj["line"]
    print(off, ln, repr(src[off:off + ln]), repr(obj["line"]))
    if bad:
        print("VIOLATION property=C19 replay=(replayed)")
    return 1 if bad else 0
