"""C05 — every type in the MIR is well formed and consistent along every edge."""
from ..oracle import graph as G
from . import graphcommon as gc

MODULE = "NadaVerif.Props.C05"
TRANSLATORS = None
THEOREMS = [f"NadaVerif.C05.{n}" for n in (
    "toMir_complete", "innerType_complete", "sideType_complete", "asInstance_complete", "memberTypes_complete",
    "fieldTypes_complete", "scalarTable_eq_model", "output_type_is_op_type", "trace_edges_consistent",
    "compile_edges_consistent", "rewrap_breaks_edges")] + \
    ["NadaVerif.C12.zip_mir_type", "NadaVerif.C12.unzip_mir_type", "NadaVerif.C12.map_type", "NadaVerif.C12.arrayNew_type"]


def oracle(mir, rec):
    return G.c05(mir)


def types_only(o):
    n, b = G.body(o)
    return {n: {k: v for k, v in b.items() if k in ("type", "return_type")}} if n else {}


def project(mir):
    return {
        "operations": [[k, types_only(o)] for k, o in mir["operations"]],
        "functions": [{"id": f["id"], "args": f["args"], "return_type": f["return_type"],
                       "operations": [[k, types_only(o)] for k, o in f["operations"]]} for f in mir["functions"]],
        "inputs": [[i["name"], i["type"]] for i in mir["inputs"]],
        "outputs": [[o["name"], o["type"]] for o in mir["outputs"]],
    }


def classify(kind, rec, mir):
    if gc.rewraps(rec["events"], rec.get("real")):
        return "NoRewrap"
    if kind == "incomplete-type" and gc.unsized_array(rec["events"]):
        return "SizedArrays"
    if kind in ("binding", "edge", "return-type") and gc.binding_inconsistent(rec):
        return "BindingConsistent"
    return None


def run(res, tier):
    gc.run_graph(res, tier, "C05", oracle, project, classify)


def replay(obj):
    return gc.replay_graph(obj, "C05", oracle)
