"""C16 — the auditor is total: always terminates with a report, runs no audited code (K6)."""
import contextlib
import io
from .. import core
from ..gen import pysrc, rng as R
from ..real import audit_run

MODULE = "NadaVerif.Props.C16"
TRANSLATORS = None
THEOREMS = [f"NadaVerif.C16.{n}" for n in (
    "typesEval_total_no_exec", "subscriptBase_terminates", "unify_total", "monomorphic_total", "normalise_total")]

CORPUS = [
    "from nada_dsl import *\ndef nada_main():\n    return",
    "from nada_dsl import *\ndef nada_main():\n    for i in range():\n        z = i\n",
    "from nada_dsl import *\ndef nada_main():\n    a = 1\n    b = a is a\n    c = a in [a]\n",
    "from nada_dsl import *\ndef nada_main():\n    xs = []\n    xs.y[0] = 1\n    f()[0] = 2\n",
    "from nada_dsl import *\ndef f(x):\n    return 1\ndef g():\n    return 2\ndef nada_main():\n    return []\n",
    "from nada_dsl import *\ndef nada_main():\n    b: foo = 1\n    c: int\n",
    "from nada_dsl import *\ndef f(x: print('EXECUTED')) -> int:\n    return 1\ndef nada_main():\n    return []\n",
    "from nada_dsl import *\ndef f(x: int) -> __import__('os').getcwd():\n    return 1\n",
    "from nada_dsl import *\ndef nada_main():\n    a = 1\n    d = (a\n         + a)\n    e = (a +\n      a)\n",
    "from nada_dsl import *\ndef nada_main():\n    p = Party(name='P')\n    p(1)\n    l = []\n    l.append(undefined)\n    q: list[int] = [1]\n    q(2)\n",
    "", "\n\n", "def", "x = = 1\n", "\t\tweird\n  indentation\n", "from nada_dsl import *\n" + "(" * 50 + "1" + ")" * 50,
    "from nada_dsl import *\ndef nada_main():\n    d = -a\n    e = not(a)\n    f = -\\\n      1\n",
    # integer literals longer than the interpreter's int -> str digit limit (legal in hexadecimal / octal / binary notation)
    "from nada_dsl import *\nMASK = 0x" + "f" * 4096 + "\ndef nada_main():\n    k = 0b1" + "0" * 15000 + "\n    return []\n",
    "from nada_dsl import *\ndef nada_main():\n    p = Party(name='P')\n    a = SecretInteger(Input(name='a', party=p))\n    b = a + Integer(0o7" + "1" * 5000
    + ")\n    l = [0x" + "ab" * 2100 + ", 1]\n    return [Output(b, 'o', p)]\n",
]


def _deep(body):
    return "from nada_dsl import *\ndef nada_main():\n    p = Party(name='P')\n    a = SecretInteger(Input(name='a', party=p))\n" + body + "\n    return [Output(a, 'o', p)]\n"


# programs nested more deeply than a recursive analysis can follow with Python's default recursion limit (and, further up,
# than the parser accepts): operator chains, unary chains, attribute / call / subscript chains, brackets, nested blocks
# ... and flat programs whose *types* nest deeply: a thousand consecutive assignments each wrapping the previous list
FLAT_NESTED = ["from nada_dsl import *\ndef nada_main():\n    v0 = [1]\n" + "".join(f"    v{i + 1} = [v{i}]\n" for i in range(n)) + "    return []\n"
               for n in (600, 1200, 2500)]
DEEP = FLAT_NESTED + [_deep("    x = " + "+".join(["1"] * n)) for n in (950, 1000, 1200, 1500, 2000, 2900, 3100, 5000)] + \
       [_deep("    x = " + " * ".join(["a"] * n)) for n in (1100, 1700)] + \
       [_deep("    x = " + "-" * 1200 + "1"), _deep("    x = " + "not " * 1200 + "True"), _deep("    x = a" + ".b" * 1500),
        _deep("    x = f" + "()" * 1300), _deep("    x = l" + "[0]" * 1300), _deep("    x = " + "(" * 150 + "a" + ")" * 150),
        _deep("    x = " + "[" * 180 + "]" * 180), _deep("    x = " + " and ".join(["True"] * 3000)),
        _deep("    x = a" + "".join(f".if_else(a, a)" for _ in range(400))), _deep("    x = " + "sum([" * 150 + "a" + "])" * 150),
        _deep("".join("    " + "    " * i + "if a:\n" for i in range(60)) + "    " * 61 + "pass"),
        _deep("    x = " + " < ".join(["a"] * 1500))]


# ... and too-deep programs that contain empty / whitespace-only lines, comments and unparseable lines
DEEP = DEEP + [_deep("    x = " + "+".join(["1"] * n)).replace("def nada_main", "\n\ndef nada_main").replace("    return", "\n    # done\n   \n    return")
               for n in (1000, 1500)] + \
       ["from nada_dsl import *\n\nk = " + "-" * 1200 + "1\n\n\ndef nada_main():\n\treturn []\n\nbroken = = 1\n\n"]

# long vertical gaps: runs of empty / whitespace-only lines at the start, in the middle and at the end of a program
GAPS = [("\n" * a) + "from nada_dsl import *\n" + g * k + "def nada_main():\n    p = Party(name='P')\n" + g * k +
        "    a = SecretInteger(Input(name='a', party=p))\n" + g * k + "    return [Output(a, 'o', p)]\n" + g * b
        for g in ("\n", "   \n", "\t\n", " \r\n") for k in (30, 64, 400) for a, b in ((0, 0), (40, 70))]


SIDE_EFFECT = "import os\nwith open(os.path.join({root!r}, 'EXECUTED-' + __name__ + '.marker'), 'a') as _f:\n    _f.write('x')\nprint('EXECUTED', __name__)\n"
PROJECT_IMPORTS = ["from auction.parties import *", "from auction.parties import alice", "import auction.parties", "import auction.parties as ap",
                   "from auction import parties", "from auction import *", "import auction", "from helpers import *", "import helpers",
                   "from . import parties", "from .parties import *", "from auction.parties.deeper import x", "import helpers, auction.parties",
                   "from nada_dsl import *\nfrom auction.parties import *"]


def project_layouts(res):
    """The audited text as a file of a project: the program is (part of) a package `auction/` with a sibling `helpers.py`,
    the auditor is started from the project directory as `python -m nada_dsl.audit --strict <file>` (the working directory
    is importable).  Whatever import statements the program contains, no module of the project runs: each module of the
    project leaves a marker file when its top-level code is executed."""
    import os
    import shutil
    import subprocess
    import sys
    import tempfile
    from .. import core
    tmp = tempfile.mkdtemp(prefix="nvc16p")
    n = 0
    try:
        os.makedirs(os.path.join(tmp, "auction", "parties_pkg"))
        eff = SIDE_EFFECT.format(root=tmp)
        for rel in ("auction/parties.py", "helpers.py", "auction/parties_pkg/__init__.py"):
            with open(os.path.join(tmp, rel), "w", encoding="utf-8") as f:
                f.write(eff + "from nada_dsl import *\nalice = 1\n")
        body = "\n\n\ndef nada_main():\n    p = Party(name='P')\n    a = SecretInteger(Input(name='a', party=p))\n    return [Output(a, 'o', p)]\n"
        env = dict(os.environ, PYTHONPATH=core.REPO, PYTHONDONTWRITEBYTECODE="1")
        for k, imp in enumerate(PROJECT_IMPORTS):
            for rel in ("auction/__init__.py", "main.py"):
                text = eff + ("from nada_dsl import *\n" if "nada_dsl" not in imp else "") + imp + body
                with open(os.path.join(tmp, rel), "w", encoding="utf-8") as f:
                    f.write(text)
                if rel == "main.py":
                    with open(os.path.join(tmp, "auction", "__init__.py"), "w", encoding="utf-8") as f:
                        f.write(eff)
                try:
                    p = subprocess.run([sys.executable, "-m", "nada_dsl.audit", "--strict", rel], cwd=tmp, env=env, capture_output=True,
                                       text=True, timeout=120)
                    out, rc = p.stdout + p.stderr, p.returncode
                except subprocess.TimeoutExpired:
                    out, rc = "", "timeout"
                n += 1
                markers = sorted(x for x in os.listdir(tmp) if x.endswith(".marker"))
                for x in markers:
                    os.remove(os.path.join(tmp, x))
                if markers or "EXECUTED" in out:
                    res.violation({"property": "C16", "kind": "project-layout", "import": imp, "file": rel, "markers": markers},
                                  f"auditing {rel} of a project (python -m nada_dsl.audit --strict {rel}, started in the project directory) whose "
                                  f"text contains `{imp}` executed module-level code of the project: {markers or out[-120:]}"[:400])
                elif rc != 0:
                    res.violation({"property": "C16", "kind": "project-layout", "import": imp, "file": rel, "rc": rc, "output": out[-300:]},
                                  f"auditing {rel} whose text contains `{imp}` ended with {rc}: {out.strip().splitlines()[-1][:200] if out.strip() else ''}")
    finally:
        shutil.rmtree(tmp, ignore_errors=True)
    return n


BASES = ["bool", "int", "str", "Integer", "PublicInteger", "SecretInteger", "Boolean", "PublicBoolean", "SecretBoolean", "range", "Party"]


def gen_ty(rng, depth=0):
    k = rng.random()
    if k < 0.45 or depth > 3:
        return {"b": rng.choice(BASES)}
    if k < 0.8:
        return {"l": gen_ty(rng, depth + 1)}
    if k < 0.9:
        return "list"
    return {"e": rng.random() < 0.5}


def real_ty(j):
    import nada_dsl.audit.abstract as A
    from nada_dsl.audit.common import TypeErrorRoot
    if j == "list":
        return list
    if "b" in j:
        return {"bool": bool, "int": int, "str": str, "range": range}.get(j["b"]) or getattr(A, j["b"])
    if "l" in j:
        return list[real_ty(j["l"])]
    return TypeErrorRoot("x") if j["e"] else TypeError("x")


def ty_json(t):
    if t is None:
        return None
    if t is list:
        return "list"
    if isinstance(t, TypeError):
        return {"e": type(t).__name__ == "TypeErrorRoot"}
    if getattr(t, "__name__", None) == "list" and hasattr(t, "__args__"):
        return {"l": ty_json(t.__args__[0])}
    return {"b": t.__name__}


def gen_ann(rng, depth=0):
    k = rng.random()
    if k < 0.5 or depth > 3:
        return rng.choice(["int", "str", "bool", "list", "SecretInteger", "Integer", "PublicBoolean", "foo", "None", "5",
                           "print('EXECUTED')", "a.b", "__import__('os')", "range", "Party", "list[int", "1/0"])
    inner = gen_ann(rng, depth + 1)
    return rng.choice(["list", "list", "dict", "Integer", "tuple"]) + "[" + inner + "]"


def ann_json(node):
    import ast
    if isinstance(node, ast.Name):
        return {"n": node.id}
    if isinstance(node, ast.Subscript):
        return {"s": [ann_json(node.value), ann_json(node.slice)]}
    return "o"


def fragments(res, rng, n):
    """K6b: the Lean fragments of Audit/Strict.lean vs the Python functions on generated inputs"""
    import ast
    import importlib
    S = importlib.import_module("nada_dsl.audit.strict")
    from nada_dsl.audit.common import unify
    reqs, want = [], []
    for _ in range(n):
        a, b = gen_ty(rng), gen_ty(rng)
        if rng.random() < 0.3:
            b = a
        try:
            want.append(("unify", ty_json(unify(real_ty(a), real_ty(b)))))
        except Exception as exc:  # pylint: disable=broad-except
            want.append(("unify", "raised " + type(exc).__name__))
        reqs.append({"k": "audit", "f": "unify", "a": a, "b": b})
        try:
            t = real_ty(a)
            want.append(("mono", [bool(S._types_list_monomorphic(t)), S._types_list_monomorphic_depth(t)]))
        except Exception as exc:  # pylint: disable=broad-except
            want.append(("mono", "raised " + type(exc).__name__))
        reqs.append({"k": "audit", "f": "mono", "a": a})
        text = gen_ann(rng)
        try:
            node = ast.parse(text, mode="eval").body
        except SyntaxError:
            continue
        try:
            want.append(("eval", ty_json(S._types_eval(node))))
        except ValueError:
            want.append(("eval", None))
        except Exception as exc:  # pylint: disable=broad-except
            want.append(("eval", "raised " + type(exc).__name__))
        reqs.append({"k": "audit", "f": "eval", "a": ann_json(node)})
    answers = core.driver(reqs)
    diffs = []
    for rq, (kind, w), ans in zip(reqs, want, answers):
        got = [ans.get("mono"), ans.get("depth")] if kind == "mono" else ans.get("r")
        if isinstance(w, str) and w.startswith("raised"):
            res.violation({"property": "C16", "kind": "fragment-raises", "request": rq, "observed": w},
                          f"{kind} raised on {rq}: {w}")
        elif got != w:
            diffs.append({"request": rq, "real": w, "model": got})
    if diffs:
        res.broken.append({"decl": "K6b (Audit/Strict.lean fragments vs strict.py / common.py)", "msg": str(diffs[:3])[:600]})
    return len(reqs), len(diffs)


def run(res, tier):
    n = 250 if tier == "quick" else 8000
    rng = R.make("C16")
    modes, outcomes, classes = {}, {}, set()
    sources = [("corpus", s) for s in CORPUS] + [("deep", s) for s in DEEP] + [("gap", s) for s in GAPS] + [("zoo-entry", s) for s in pysrc.zoo_programs()]
    n += len(sources) - len(CORPUS) - len(DEEP)
    while len(sources) < n + len(CORPUS) + len(DEEP):
        sources.append(pysrc.generate(rng))
    nontrivial = set()
    samples = []
    for mode, src in sources:
        classes |= pysrc.node_classes(src)
        buf = io.StringIO()
        with contextlib.redirect_stdout(buf):
            # (the watchdog is about termination, not speed: the deeply nested programs are slow to tokenise)
            r = audit_run.run_strict(src, timeout=60 if mode == "deep" else 10 if mode == "gap" else 4)
        if "EXECUTED" in buf.getvalue() and r["outcome"] == "ok":
            r["outcome"] = "runs-user-code"
        modes[mode] = modes.get(mode, 0) + 1
        outcomes[r["outcome"]] = outcomes.get(r["outcome"], 0) + 1
        if r["outcome"] == "ok":
            if len(src.strip().split("\n")) >= 4:
                nontrivial.add(src)
        else:
            what = {"raises": f"the auditor raised {r.get('exc')} at {r.get('site')}", "loops": "the auditor did not terminate within the watchdog time",
                    "runs-user-code": f"the auditor executed code of the audited program: {r.get('executed')}"}[r["outcome"]]
            res.violation({"property": "C16", "kind": r["outcome"], "source": src, "exception": r.get("exc"),
                           "site": r.get("site"), "inner": r.get("inner"), "executed": r.get("executed")}, what[:300])
            if len(res.violations) > (3 if r["outcome"] == "loops" else 15):
                break
        if len(samples) < 3 and mode in ("zoo", "corrupt"):
            samples.append({"mode": mode, "source": src[:500]})
    nproj = project_layouts(res)
    nfrag, ndiff = fragments(res, rng, 300 if tier == "quick" else 5000)
    import ast
    allc = {k for k in dir(ast) if isinstance(getattr(ast, k), type) and issubclass(getattr(ast, k), (ast.stmt, ast.expr))
            and k not in ("stmt", "expr") and not k.startswith("_")}
    res.coverage.update({
        "evaluations": len(sources), "distinct_nontrivial": len(nontrivial),
        "rule": "source texts: strict-subset programs from typed fragments, perturbed with statements / expressions from a zoo covering "
                "every ast statement and expression class, type errors, layout variation and token-level corruption; each run through "
                "strict() + html() under a 4 s watchdog and a sys.addaudithook recording exec of code objects that do not come from a "
                "file; non-trivial = distinct sources of >= 4 lines for which a report was produced",
        "modes": modes, "outcomes": outcomes, "project_layout_audits": nproj, "fragment_requests": nfrag, "fragment_disagreements": ndiff,
        "ast_node_classes_reached": len(classes & allc), "ast_node_classes_total": len(allc),
        "ast_node_classes_missing": sorted(allc - classes),
        "samples": samples,
    })
    res.assumptions += ["ast.parse, parsial, asttokens and richreports are exercised, not modelled (recursion limits on deeply nested "
                        "input are outside the claim)", "executing audited code is detected through CPython audit events ('exec')"]


def replay(obj):
    if obj.get("kind") == "project-layout":
        class _R:
            violations = []

            def violation(self, o, text):
                if o.get("import") == obj.get("import") and o.get("file") == obj.get("file"):
                    self.violations.append(text)
        r = _R()
        project_layouts(r)
        print(r.violations or "ok")
        if r.violations:
            print("VIOLATION property=C16 replay=(replayed)")
        return 1 if r.violations else 0
    buf = io.StringIO()
    with contextlib.redirect_stdout(buf):
        r = audit_run.run_strict(obj["source"], timeout=60)
    bad = r["outcome"] != "ok" or "EXECUTED" in buf.getvalue()
    print(r["outcome"], r.get("exc"), r.get("site"))
    if bad:
        print("VIOLATION property=C16 replay=(replayed)")
    return 1 if bad else 0
