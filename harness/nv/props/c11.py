"""C11 — Nada functions keep their signature, their bindings and their restrictions."""
from ..oracle import iface
from . import graphcommon as gc

MODULE = "NadaVerif.Props.C11"
TRANSLATORS = None
THEOREMS = [f"NadaVerif.C11.{n}" for n in (
    "schema_roundtrip", "store_straight_line", "call_binding", "call_arity_rejected", "reduce_binding",
    "literal_return_rejected", "all_literal_params_rejected", "fn_record", "call_keyword_binding", "call_mixed_binding",
    "call_unexpected_keyword_rejected", "fn_emitted_once")] + ["NadaVerif.C12.map_type"]


def restrictions(rec):
    """functions with a literal return type / only literal parameters must have been rejected"""
    v, stack = [], []
    for ev, res in zip(rec["events"], rec["real"]):
        c = ev.get("c")
        if c is None:
            continue
        if c["op"] == "beginFn":
            stack.append(c)
        elif c["op"] == "endFn" and stack:
            b = stack.pop()
            lit_ret = c["retAnn"] in ("Integer", "UnsignedInteger", "Boolean")
            all_lit = all(a in ("Integer", "UnsignedInteger", "Boolean") for _, a in b["params"])
            if (lit_ret or all_lit) and res.get("s") is None:
                v.append(("restriction", f"function {b['name']} with literal return type / only literal parameters was accepted"))
    return v


def oracle(mir, rec):
    return iface.c11(mir, rec) + restrictions(rec)


def project(mir):
    from ..oracle.graph import body
    sites = []
    for tbl in [mir["operations"]] + [f["operations"] for f in mir["functions"]]:
        for k, o in tbl:
            n, b = body(o)
            if n in ("Map", "Reduce", "NadaFunctionCall"):
                sites.append([k, n, b.get("fn", b.get("function_id")), b.get("args"), b.get("inner"), b.get("initial")])
    return {"functions": [{k: v for k, v in f.items() if k != "operations"} for f in mir["functions"]], "sites": sites}


def run(res, tier):
    gc.run_graph(res, tier, "C11", oracle, project, None)


def replay(obj):
    return gc.replay_graph(obj, "C11", oracle)
