"""C17 — the audit report reproduces the source and shows the inferred types (K7)."""
import contextlib
import io
from .. import core
from ..gen import pysrc, rng as R
from ..real import audit_run
from ..oracle import report as RO

MODULE = "NadaVerif.Props.C17"
TRANSLATORS = None
THEOREMS = [f"NadaVerif.C17.{n}" for n in (
    "erase_renderCell", "erase_pushCell", "erase_render_push", "erase_render_mk", "render_erase", "render_lines")]


def audit(src):
    """strict() with the parse step repeated so that the AST with its audits is available"""
    import importlib
    S = importlib.import_module("nada_dsl.audit.strict")
    holder = {}
    orig = S.parse

    def spy(source):
        atok, skips = orig(source)
        holder["atok"], holder["skips"] = atok, skips
        return atok, skips
    S.parse = spy
    try:
        with contextlib.redirect_stdout(io.StringIO()):
            r = audit_run.run_strict(src)
    finally:
        S.parse = orig
    return r, holder


def judge(src):
    r, h = audit(src)
    if r["outcome"] != "ok":
        return None, r
    rep = r["report"]
    text = src.strip()
    v = RO.check(rep, text)
    if v:
        return v, r       # the report does not reproduce the text: positions inside it mean nothing
    if "the program is nested too deeply to be analyzed" in r["render"]:
        # the analysis was abandoned: nothing was inferred, the one restriction found is displayed on every line that has text
        sp = RO.spans(rep)
        starts, lines = [0], text.split("\n")
        for l in lines:
            starts.append(starts[-1] + len(l) + 1)
        marked = RO.marked_lines(rep, text)
        for i, l in enumerate(lines):
            if l.strip() and i not in marked and not any("nested too deeply" in t and starts[i] <= a and b <= starts[i] + len(l) and b > a for t, a, b in sp):
                v.append(("restriction-not-shown", f"line {i + 1} of a program nested too deeply to be analysed is not marked"))
        return v, r
    if "atok" in h:
        # the lines that could not be parsed, read off the text that *was* parsed (the partial parser blanks them),
        # not from the auditor's own bookkeeping
        kept = h["atok"].text.split("\n")
        skipped = [i for i, l in enumerate(text.split("\n")) if i >= len(kept) or kept[i] != l]
        v += RO.displayed(rep, text, h["atok"].tree, h["atok"], skipped)
        v += RO.invented(rep, text, h["atok"].tree, h["atok"], skipped)
        marked = RO.marked_lines(rep, text)
        for i in marked:
            if i not in skipped:
                v.append(("syntax-error-misplaced", f"line {i + 1} was parsed but is marked as a syntax error"))
    return v, r


# layouts in which a displayed range ends with its line or falls on an empty line: a bare `return` (of a helper that declares
# a return type, or not) as the last thing on its line, an operator whose operands are separated by a blank line with the
# continuation in column 0, a prohibited assignment whose value is prohibited too
LAYOUT = [
    "from nada_dsl import *\n\ndef clamp(a: int) -> int:\n    b = a + 1\n    return\n\ndef nada_main():\n    p = Party(name=\"P\")\n"
    "    x = SecretInteger(Input(name=\"x\", party=p))\n    y = (x +\n\n\"one\")\n    return [Output(x, \"o\", p)]\n",
    "from nada_dsl import *\n\ndef h(a: SecretInteger) -> SecretInteger:\n    for i in range(2):\n        return\n    return a\n\n"
    "def nada_main():\n    p = Party(name=\"P\")\n    x = SecretInteger(Input(name=\"x\", party=p))\n    z = (x\n\n*\n\nx)\n    w = (1 <\n\n'a')\n    return",
    "from nada_dsl import *\n\ndef nada_main():\n    p = Party(name=\"P\")\n    x = SecretInteger(Input(name=\"x\", party=p))\n"
    "    (q, r) = (lambda v: v, eval(\"x\"))\n    a = b = p.name\n    return [Output(x, \"o\", p)]\n",
    # an indexing expression whose bracket does not directly follow the indexed value (a space, a parenthesis, a line break)
    "from nada_dsl import *\n\ndef nada_main():\n    l = [1, 2, 3]\n    x = l [\"a\"]\n    y = (l)[\"b\"]\n    z = (l\n      [\"c\"])\n    w = l [0] + l\t[1]\n    m = [[1]]\n    v = m [0] [0]\n    return []\n",
    # helpers used as values (their inferred type is a Callable, not a class)
    "from nada_dsl import *\n\ndef twice(a: SecretInteger) -> SecretInteger:\n    return a + a\n\ndef nada_main():\n    p = Party(name=\"P\")\n"
    "    x = SecretInteger(Input(name=\"x\", party=p))\n    g = twice\n    fs = [twice, twice]\n    y = g(x)\n    z = twice\n    return [Output(y, \"o\", p)]\n",
    "from nada_dsl import *\n\ndef one() -> int:\n    return 1\n\ndef nada_main():\n    k = one\n    ks = [[one]]\n    n = None\n    r = range(3)\n    return []\n",
    # an operator expression continued on the next line, the right operand (or the operator) in column 0
    "from nada_dsl import *\n\ndef nada_main():\n    a = 1\n    nn = 2\n    d = (a +\nnn)\n    e = (a\n+ nn)\n    f = (True and\nnn)\n    g = (a <\nnn)\n    h = (not\nnn)\n    return []\n",
]


def run(res, tier):
    n = 200 if tier == "quick" else 6000
    rng = R.make("C17")
    from .c16 import CORPUS, _deep
    # (programs nested too deeply to be analysed have a report too: every line marked, the text intact, the markup nested)
    too_deep = [_deep("    x = " + "+".join(["1"] * 1500)), _deep("    x = " + "[" * 180 + "]" * 180) + "\nk = 1\n\n\ndef h():\n    return\n",
                "from nada_dsl import *\nk = " + "-" * 1200 + "1\n\n\ndef nada_main():\n\treturn []\nbroken = = 1\n"]
    sources = [("corpus", s) for s in CORPUS] + [("layout", s) for s in LAYOUT] + [("too-deep", s) for s in too_deep] + \
              [("zoo-entry", s) for s in pysrc.zoo_programs()]
    n += len(sources) - len(CORPUS)
    while len(sources) < n + len(CORPUS):
        sources.append(pysrc.generate(rng))
    evals, nontrivial, kinds = 0, set(), {}
    samples = []
    for mode, src in sources:
        v, r = judge(src)
        evals += 1
        if v is None:
            continue      # C16's business
        if len(src.strip().split("\n")) >= 4:
            nontrivial.add(src)
        for kind, text in v[:3]:
            kinds[kind] = kinds.get(kind, 0) + 1
            res.violation({"property": "C17", "kind": kind, "text": text, "source": src}, f"{kind}: {text}"[:300])
        if len(res.violations) > 15:
            break
        if len(samples) < 2 and mode == "typed":
            samples.append({"mode": mode, "source": src[:400], "rendered": r["render"][:400]})
    res.coverage.update({
        "evaluations": evals, "distinct_nontrivial": len(nontrivial),
        "rule": "the K6 source generator (strict-subset programs, zoo of all syntax forms, type errors, layout variation: multi-line "
                "expressions, comments containing markup, odd spacing, corrupted lines); every report is checked token by token from "
                "its stacks: erasing the inserted delimiters gives the audited text, delimiters are properly nested, every audited "
                "node's type / error and every restriction is displayed inside the node's text, skipped lines are marked; "
                "non-trivial = distinct sources of >= 4 lines with a report",
        "violation_kinds": kinds, "samples": samples,
    })
    res.assumptions += ["token positions come from asttokens (taken as given)", "strict() audits source.strip(); that is the text compared"]


def replay(obj):
    v, r = judge(obj["source"])
    print(v if v is not None else r.get("outcome"))
    bad = bool(v)
    if bad:
        print("VIOLATION property=C17 replay=(replayed)")
    return 1 if bad else 0
