"""C12 — collection operations enforce their preconditions and size/element rules."""
from ..oracle import iface, graph as G
from . import graphcommon as gc

MODULE = "NadaVerif.Props.C12"
TRANSLATORS = None
THEOREMS = [f"NadaVerif.C12.{n}" for n in (
    "zip_size_mismatch_rejected", "inner_size_mismatch_rejected", "inner_nonint_rejected", "arrayNew_empty_rejected",
    "arrayNew_mixed_rejected", "ntupleGet_out_of_range_rejected", "objectGet_missing_rejected",
    "ntupleGet_index_in_range", "zip_type", "zip_mir_type", "unzip_mir_type", "map_type", "arrayNew_type")]

COLL = ("Zip", "Unzip", "Map", "New", "NTupleAccessor", "ObjectAccessor", "InnerProduct")

_seen = set()


def oracle(mir, rec):
    v = []
    key = id(rec.get("facts"))
    if key not in _seen:
        _seen.add(key)
        v += iface.c12_steps(rec)
    # element type / size rules on the operations that reached the MIR
    for kind, text in G.c05(mir):
        if kind in ("edge", "index-range") and any(f"{n}#" in text for n in COLL):
            v.append((kind, text))
    return v


def project(mir):
    from ..oracle.graph import body
    out = []
    for tbl in [mir["operations"]] + [f["operations"] for f in mir["functions"]]:
        for k, o in tbl:
            n, b = body(o)
            if n in COLL:
                out.append([k, n, b.get("type"), b.get("index"), b.get("key")])
    return out


def classify(kind, rec, mir):
    if gc.rewraps(rec["events"]):
        return "NoRewrap"
    if gc.binding_inconsistent(rec):
        return "BindingConsistent"
    return None


def run(res, tier):
    gc.run_graph(res, tier, "C12", oracle, project, classify)


def replay(obj):
    _seen.clear()
    return gc.replay_graph(obj, "C12", oracle)
