"""C12 — collection operations enforce their preconditions and size/element rules."""
from ..oracle import iface, graph as G
from . import graphcommon as gc

MODULE = "NadaVerif.Props.C12"
TRANSLATORS = None
THEOREMS = [f"NadaVerif.C12.{n}" for n in (
    "zip_size_mismatch_rejected", "inner_size_mismatch_rejected", "inner_nonint_rejected", "arrayNew_empty_rejected",
    "arrayNew_mixed_rejected", "ntupleGet_out_of_range_rejected", "objectGet_missing_rejected",
    "ntupleGet_index_in_range", "zip_type", "zip_mir_type", "unzip_mir_type", "map_type", "arrayNew_type")]

COLL = ("Zip", "Unzip", "Map", "New", "NTupleAccessor", "ObjectAccessor", "InnerProduct")

_seen = set()


def oracle(mir, rec):
    v = []
    key = id(rec.get("facts"))
    if key not in _seen:
        _seen.add(key)
        v += iface.c12_steps(rec)
    # element type / size rules on the operations that reached the MIR
    for kind, text in G.c05(mir):
        if kind in ("edge", "index-range", "incomplete-type") and any(f"{n}#" in text for n in COLL):
            v.append((kind, text))
    return v


def project(mir):
    from ..oracle.graph import body
    out = []
    for tbl in [mir["operations"]] + [f["operations"] for f in mir["functions"]]:
        for k, o in tbl:
            n, b = body(o)
            if n in COLL:
                out.append([k, n, b.get("type"), b.get("index"), b.get("key")])
    return out


def classify(kind, rec, mir):
    if gc.rewraps(rec["events"], rec.get("real")):
        return "NoRewrap"
    if gc.binding_inconsistent(rec):
        return "BindingConsistent"
    return None


def aliasing_probe():
    """A test, not part of the model: the members of an n-tuple / object are fixed when it is built; changing the
    caller's list / dict afterwards must not make a position or field exist that the recorded value does not have."""
    from nada_dsl import Party, Input, SecretInteger, PublicInteger, NTuple, Object
    from ..real.env import reset_globals
    reset_globals()
    p = Party("P")
    a, b, c = SecretInteger(Input("a", p)), SecretInteger(Input("b", p)), PublicInteger(Input("c", p))
    bad = []
    fields = [a, b]
    t = NTuple.new(fields)
    fields.append(c)
    try:
        t[2]
        bad.append("fields=[a,b]; t=NTuple.new(fields); fields.append(c): t[2] was accepted although t has two members")
    except IndexError:
        pass
    d = {"k": a}
    o = Object.new(d)
    d["z"] = c
    try:
        getattr(o, "z")
        bad.append("d={'k':a}; o=Object.new(d); d['z']=c: o.z was accepted although o has no field z")
    except AttributeError:
        pass
    reset_globals()
    return bad


def missing_field_probe():
    """A test, not part of the model (whose keys are compared as strings): a name that is not a declared field is rejected
    however close it is to one — a trailing / leading underscore, another case, a prefix, a plural — on an object, on an object
    read from another object and on one read from an n-tuple."""
    from nada_dsl import Party, Input, SecretInteger, PublicInteger, NTuple, Object
    from ..real.env import reset_globals
    reset_globals()
    p = Party("P")
    a, b = SecretInteger(Input("a", p)), PublicInteger(Input("b", p))
    bad = []
    fields = ["total", "rate", "in", "class", "x", "k_1"]
    plain = Object.new({f: (a if i % 2 else b) for i, f in enumerate(fields)})
    views = {"o": plain, "Object.new({'inner': o}).inner": Object.new({"inner": plain}).inner, "NTuple.new([o, a])[0]": NTuple.new([plain, a])[0]}
    for vname, o in views.items():
        for f in fields:
            for near in (f + "_", "_" + f, f + "__", f.upper(), f.capitalize(), f[:-1], f + "s", f + " ", f.replace("_", "")):
                if near in fields or not near:
                    continue
                try:
                    getattr(o, near)
                    bad.append(f"o = Object.new({{{', '.join(repr(x) for x in fields)}}}); getattr({vname}, {near!r}) was accepted although no field has that name")
                except AttributeError:
                    pass
                except Exception as exc:  # pylint: disable=broad-except
                    bad.append(f"getattr({vname}, {near!r}) raised {type(exc).__name__} instead of rejecting the name")
    reset_globals()
    return bad


def index_probe():
    """A test, not part of the model (whose indices are integers): whatever Python accepts as a sequence index is recorded
    as an integer position inside 0..n-1 (`t[True]` is position 1), anything else is rejected."""
    import json
    from nada_dsl import Party, Input, Output, SecretInteger, NTuple
    from nada_dsl.compiler_frontend import nada_dsl_to_nada_mir
    from ..real.env import reset_globals
    reset_globals()
    p = Party("P")
    a, b = SecretInteger(Input("a", p)), SecretInteger(Input("b", p))
    t = NTuple.new([a, b])
    bad = []

    class Idx:
        def __index__(self):
            return 1
    for text, idx in (("True", True), ("False", False), ("an object with __index__ -> 1", Idx())):
        try:
            got = t[idx]
        except Exception:  # pylint: disable=broad-except
            continue                     # rejecting it is fine
        mir = json.loads(json.dumps(nada_dsl_to_nada_mir([Output(got, "o", p)])))
        for op in mir["operations"].values():
            for name, body in op.items():
                if name == "NTupleAccessor" and not (type(body.get("index")) is int and 0 <= body["index"] < 2):
                    bad.append(f"t[{text}] on a 2-tuple was accepted and recorded index {body.get('index')!r}, which is not a position 0..1")
    for text, idx in (("1.0", 1.0), ("'0'", "0"), ("None", None)):
        try:
            t[idx]
            bad.append(f"t[{text}] was accepted")
        except Exception:  # pylint: disable=broad-except
            pass
    # array sizes: a size is a positive integer; whatever else Python would let through (`True` is an int) is rejected
    # or recorded as that integer — never as a JSON boolean
    for text, size in (("True", True), ("False", False), ("1.0", 1.0), ("'3'", "3")):
        try:
            from nada_dsl import Array
            arr = Array(SecretInteger(Input("s" + text, p)), size=size)
        except Exception:  # pylint: disable=broad-except
            continue
        try:
            mir = json.loads(json.dumps(nada_dsl_to_nada_mir([Output(arr, "o", p)])))
        except Exception:  # pylint: disable=broad-except
            continue
        got = [i["type"]["Array"]["size"] for i in mir["inputs"] if isinstance(i["type"], dict)]
        if any(type(g) is not int or g < 1 for g in got):
            bad.append(f"Array(value, size={text}) was accepted and the MIR records the size {got[0]!r}, which is not a positive integer")
    reset_globals()
    return bad


def _probe(res, name, fn):
    """a probe that cannot even build its values (the constructors it uses raise) is a broken obligation, not a crash of the check"""
    try:
        return fn()
    except Exception as exc:  # pylint: disable=broad-except
        from ..real.env import reset_globals
        reset_globals()
        res.broken.append({"decl": f"C12 {name} probe (legal constructions of n-tuples / objects)", "msg": f"{type(exc).__name__}: {exc}"[:300]})
        return []


def run(res, tier):
    for text in _probe(res, "aliasing", aliasing_probe):
        res.violation({"property": "C12", "kind": "aliasing", "text": text}, "aliasing: " + text)
    for text in _probe(res, "missing-field", missing_field_probe)[:3]:
        res.violation({"property": "C12", "kind": "missing-field", "text": text}, "field: " + text)
    for text in _probe(res, "index", index_probe):
        res.violation({"property": "C12", "kind": "index-kind", "text": text}, "index: " + text)
    gc.run_graph(res, tier, "C12", oracle, project, classify)


def replay(obj):
    if obj.get("kind") == "aliasing":
        bad = aliasing_probe()
        print(bad or "ok")
        if bad:
            print("VIOLATION property=C12 replay=(replayed)")
        return 1 if bad else 0
    if obj.get("kind") == "missing-field":
        bad = missing_field_probe()
        print(bad[:3] or "ok")
        if bad:
            print("VIOLATION property=C12 replay=(replayed)")
        return 1 if bad else 0
    if obj.get("kind") == "index-kind":
        bad = index_probe()
        print(bad or "ok")
        if bad:
            print("VIOLATION property=C12 replay=(replayed)")
        return 1 if bad else 0
    _seen.clear()
    return gc.replay_graph(obj, "C12", oracle)
