"""C13 — compilation is deterministic and the same through every entry point (K9: fresh processes)."""
import base64
import sys
import json
import os
import shutil
import subprocess
import tempfile
from concurrent.futures import ThreadPoolExecutor
from .. import core
from ..corr import mir as cm
from ..gen import programs, render, rng as R
from ..real.env import reset_globals

MODULE = "NadaVerif.Props.C13"
TRANSLATORS = None
THEOREMS = [f"NadaVerif.C13.{n}" for n in ("timers_balanced_after_history", "no_timer_error_after_history", "good_program_compiles_after_history") + (
    "cli_one_line", "cli_path_success", "cli_path_failure", "cli_string_entry", "entry_points_agree",
    "compile_deterministic", "runCmds_append")]

PY = "/venv/bin/python"


def cli(args, cwd, env_extra):
    env = dict(os.environ)
    env.pop("NADA_TIMER", None)
    env["PYTHONPATH"] = core.REPO
    env.update(env_extra)
    p = subprocess.run([PY, "-m", "nada_dsl.compile"] + args, cwd=cwd, env=env, capture_output=True, text=True, timeout=120)
    out = "\n".join(l for l in p.stdout.split("\n") if not l.startswith("WARNING: conda"))
    return p.returncode, out


def strip_locations(mir):
    return cm.canon_mir(mir)


def parse_line(out):
    """exactly one non-empty line holding one JSON object"""
    lines = [l for l in out.split("\n") if l.strip()]
    if len(lines) != 1:
        return None, f"{len(lines)} lines printed"
    try:
        obj = json.loads(lines[0])
    except ValueError as exc:
        return None, f"not JSON: {exc}"
    if not isinstance(obj, dict) or obj.get("result") not in ("Success", "Failure"):
        return None, "no result field"
    if obj["result"] == "Success":
        try:
            obj["_mir"] = json.loads(obj["mir"])
        except (ValueError, KeyError, TypeError) as exc:
            return None, f"Success without parseable mir: {exc}"
    elif not obj.get("reason") and obj.get("reason") != "":
        return None, "Failure without reason"
    return obj, None


def check_program(idx, src, tmp, seeds, helpers=None):
    """Returns (violations, facts) for one program text (`helpers`: sibling modules the program imports)."""
    viol = []
    d = os.path.join(tmp, f"p{idx}")
    os.makedirs(d, exist_ok=True)
    path = os.path.join(d, f"prog_{idx}.py")
    with open(path, "w", encoding="utf-8") as f:
        f.write(src)
    extra = {}
    for name, text in (helpers or {}).items():
        with open(os.path.join(d, name), "w", encoding="utf-8") as f:
            f.write(text)
        extra = {"PYTHONPATH": core.REPO + os.pathsep + d}       # the string entry point has no directory of its own
    b64 = base64.b64encode(src.encode()).decode()
    runs = {}
    for hs in seeds:
        runs[("path", hs)] = cli([path], d, dict(extra, PYTHONHASHSEED=hs))
    runs[("b64", seeds[0])] = cli(["-s", b64], d, dict(extra, PYTHONHASHSEED=seeds[0]))
    runs[("b64", seeds[-1])] = cli(["-s", b64], d, dict(extra, PYTHONHASHSEED=seeds[-1]))
    # the same text as `base64` / MIME tools print it: lines of 76 characters
    runs[("b64 in 76-character lines", seeds[0])] = cli(["-s", base64.encodebytes(src.encode()).decode()], d, dict(extra, PYTHONHASHSEED=seeds[0]))
    runs[("path+timer", seeds[0])] = cli([path], d, dict(extra, PYTHONHASHSEED=seeds[0], NADA_TIMER="1"))
    if isinstance(idx, int) and idx % 3 == 0:
        # the same text saved with a byte order mark (as some editors do), from its path and as base64 of the same bytes
        bom_path = os.path.join(d, f"prog_{idx}_bom.py")
        with open(bom_path, "w", encoding="utf-8-sig") as f:
            f.write(src)
        with open(bom_path, "rb") as f:
            bom_bytes = f.read()
        runs[("path, file with a byte order mark", seeds[0])] = cli([bom_path], d, dict(extra, PYTHONHASHSEED=seeds[0]))
        runs[("b64 of the file with a byte order mark", seeds[0])] = cli(["-s", base64.b64encode(bom_bytes).decode()], d, dict(extra, PYTHONHASHSEED=seeds[0]))
        # ... and saved in another encoding, declared in its first line (PEP 263); a name that is not ASCII makes the bytes differ
        cookie_path = os.path.join(d, f"prog_{idx}_latin.py")
        cookie_text = "# -*- coding: latin-1 -*-\n" + src.replace("Party(name=\"", "Party(name=\"é", 1).replace("Party(name='", "Party(name='é", 1)
        try:
            cookie_bytes = cookie_text.encode("latin-1")
        except UnicodeEncodeError:
            cookie_bytes = None
        if cookie_bytes is not None:
            with open(cookie_path, "wb") as f:
                f.write(cookie_bytes)
            runs[("path, file in latin-1 with an encoding declaration", seeds[0])] = cli([cookie_path], d, dict(extra, PYTHONHASHSEED=seeds[0]))
            runs[("b64 of the latin-1 file", seeds[0])] = cli(["-s", base64.b64encode(cookie_bytes).decode()], d, dict(extra, PYTHONHASHSEED=seeds[0]))
            # the same declaration on bytes that happen to be UTF-8: the interpreter reads them as latin-1 all the same
            odd_path = os.path.join(d, f"prog_{idx}_declared_latin.py")
            with open(odd_path, "wb") as f:
                f.write(cookie_text.encode("utf-8"))
            runs[("path, UTF-8 bytes declared latin-1", seeds[0])] = cli([odd_path], d, dict(extra, PYTHONHASHSEED=seeds[0]))
            runs[("b64 of the UTF-8 bytes declared latin-1", seeds[0])] = cli(["-s", base64.b64encode(cookie_text.encode("utf-8")).decode()], d, dict(extra, PYTHONHASHSEED=seeds[0]))
    runs[("b64+timer", seeds[0])] = cli(["-s", b64], d, dict(extra, PYTHONHASHSEED=seeds[0], NADA_TIMER="1"))
    parsed = {}
    for k, (rc, out) in runs.items():
        obj, err = parse_line(out)
        if err:
            viol.append(("envelope", f"{k}: {err}: {out[:200]!r}"))
        parsed[k] = obj
    base = runs[("path", seeds[0])][1]
    for hs in seeds[1:]:
        if runs[("path", hs)][1] != base:
            viol.append(("hash-seed", f"stdout differs between PYTHONHASHSEED={seeds[0]} and {hs}"))
    if runs[("b64", seeds[0])][1] != runs[("b64", seeds[-1])][1]:
        viol.append(("hash-seed", "base64 entry point: stdout differs between hash seeds"))
    p0 = parsed.get(("path", seeds[0]))
    for k in (("b64", seeds[0]), ("b64 in 76-character lines", seeds[0]), ("path+timer", seeds[0]), ("b64+timer", seeds[0]),
              ("path, file with a byte order mark", seeds[0]), ("b64 of the file with a byte order mark", seeds[0])):
        pk = parsed.get(k)
        if p0 is None or pk is None:
            continue
        if p0["result"] != pk["result"]:
            viol.append(("entry-points", f"path entry point: {p0['result']}, {k[0]}: {pk['result']} ({pk.get('reason', '')[:120]})"))
        elif p0["result"] == "Success":
            dd = cm.first_diff(strip_locations(p0["_mir"]), strip_locations(pk["_mir"]))
            if dd:
                viol.append(("entry-points", f"MIR differs between path and {k[0]}: {dd}"))
    for what, kp, kb in (("file in latin-1 with an encoding declaration", "path, file in latin-1 with an encoding declaration", "b64 of the latin-1 file"),
                         ("UTF-8 bytes with a latin-1 encoding declaration", "path, UTF-8 bytes declared latin-1", "b64 of the UTF-8 bytes declared latin-1")):
        pl, bl = parsed.get((kp, seeds[0])), parsed.get((kb, seeds[0]))
        if pl is None or bl is None:
            continue
        if pl["result"] != bl["result"]:
            viol.append(("entry-points", f"{what}: path entry point: {pl['result']} ({pl.get('reason', '')[:80]}), base64 of the same bytes: "
                                         f"{bl['result']} ({bl.get('reason', '')[:80]})"))
        elif pl["result"] == "Success":
            dd = cm.first_diff(strip_locations(pl["_mir"]), strip_locations(bl["_mir"]))
            if dd:
                viol.append(("entry-points", f"{what}: MIR differs between path and base64 of the same bytes: {dd}"))
    if parsed.get(("path+timer", seeds[0])) and p0 and runs[("path+timer", seeds[0])][1] != base:
        viol.append(("timers", "stdout with NADA_TIMER=1 differs from stdout without"))
    return viol, (p0 or {}).get("result")


# a program whose operations are created in several files (helper modules next to it): every per-file table of the MIR
# must come out in the same order whatever the hash seed
HELPERS = {
    "pricing_rules.py": "from nada_dsl import *\n\ndef price(a, b):\n    return a * b + a\n",
    "rounding_rules.py": "from nada_dsl import *\n\ndef rnd(x, y):\n    d = x - y\n    return d * Integer(2)\n",
    "zz_fees.py": "from nada_dsl import *\n\n@nada_fn\ndef fee(x: SecretInteger) -> SecretInteger:\n    return x + x\n",
    "audit_trail.py": "from nada_dsl import *\n\ndef total(xs):\n    return sum(xs)\n",
    "a.py": "from nada_dsl import *\n\ndef pick(c, x, y):\n    return c.if_else(x, y)\n",
    "rates.py": "from nada_dsl import *\n\nFEE = Integer(3)\nHUNDRED = Integer(100)\n",
}
MULTI_FILE = """from nada_dsl import *
from pricing_rules import price
from rounding_rules import rnd
from zz_fees import fee
from audit_trail import total
from a import pick
from rates import FEE, HUNDRED


def nada_main():
    p = Party(name="P")
    a = SecretInteger(Input(name="a", party=p))
    b = SecretInteger(Input(name="b", party=p))
    x = price(a, b)
    y = rnd(x, a)
    z = fee(y)
    t = total([x, y, z])
    w = pick(a < b, t, z)
    r = a * FEE / HUNDRED
    double = nada_fn(lambda v: v + v, args_ty={"v": SecretInteger}, return_ty=SecretInteger)
    triple = nada_fn(lambda v: v + v + v, args_ty={"v": SecretInteger}, return_ty=SecretInteger)
    m = Array.new(a, b).map(double).reduce(nada_fn(lambda acc, v: acc + triple(v), args_ty={"acc": SecretInteger, "v": SecretInteger},
                                                   return_ty=SecretInteger), Integer(0) + a)
    return [Output(w, "w", p), Output(t, "t", p), Output(r + Integer(10), "r", p), Output(m, "m", p)]
"""


# a program that defines a class whose construction looks the program's own module up in sys.modules (dataclasses under
# postponed evaluation of annotations do): the outcome must not depend on the file name or on earlier compilations
DATACLASS_PROG = """from __future__ import annotations
from dataclasses import dataclass
from nada_dsl import *


@dataclass
class Cfg:
    n: int = 2


def nada_main():
    p = Party(name="P")
    a = SecretInteger(Input(name="a", party=p))
    return [Output(a * Integer(Cfg().n), "o", p)]
"""


def programmatic_entry_points(tmp, src, helpers, reference_mir):
    """compile_script / compile_string called from Python, three times each in one new interpreter (the helper modules
    are imported once and stay cached, as Python does): every result must be the MIR the command line produced, up to the
    renaming of operation ids, literal names and source locations"""
    import subprocess
    import sys
    import json as _json
    from .c08 import normalize
    viol = []
    d = os.path.join(tmp, "pep")
    os.makedirs(tmp, exist_ok=True)
    os.makedirs(d, exist_ok=True)
    path = os.path.join(d, "prog_multi.py")
    with open(path, "w", encoding="utf-8") as f:
        f.write(src)
    for name, text in helpers.items():
        with open(os.path.join(d, name), "w", encoding="utf-8") as f:
            f.write(text)
    ref = normalize(strip_locations(reference_mir))
    n = 0
    for via in ("script", "string"):
        env = dict(os.environ, PYTHONPATH=os.pathsep.join([core.REPO, os.path.join(core.VERIF, "harness"), d]), PYTHONDONTWRITEBYTECODE="1")
        env.pop("NADA_TIMER", None)
        p = subprocess.run([sys.executable, "-m", "nv.real.fresh_hist", via, path, path, path], cwd=tmp, env=env,
                           capture_output=True, text=True, timeout=300)
        try:
            outs = _json.loads(p.stdout)
        except ValueError:
            raise core.Infra(f"fresh_hist failed: {(p.stderr or p.stdout)[-300:]}")
        for k, o in enumerate(outs):
            n += 1
            if "mir" not in o:
                viol.append(("entry-points", f"compile_{via}, call {k + 1} in one process: {o.get('err')}: {o.get('msg')}; the command line compiles the same text"))
                continue
            dd = cm.first_diff(ref, normalize(strip_locations(o["mir"])))
            if dd:
                viol.append(("entry-points", f"compile_{via}, call {k + 1} in one process: MIR differs from the command line's MIR of the same text: {dd}"))
        # ... and after programs that fail inside the compiler once part of their outputs was converted (an element of the
        # returned list that is not an Output; two different inputs under one name), sharing input and party names with it
        for tag, bad_src in FAIL_INSIDE.items():
            bad_path = os.path.join(d, f"fails_{tag}.py")
            with open(bad_path, "w", encoding="utf-8") as f:
                f.write(bad_src)
            p = subprocess.run([sys.executable, "-m", "nv.real.fresh_hist", via, bad_path, path, bad_path, path], cwd=tmp, env=env,
                               capture_output=True, text=True, timeout=300)
            try:
                outs = _json.loads(p.stdout)
            except ValueError:
                raise core.Infra(f"fresh_hist failed: {(p.stderr or p.stdout)[-300:]}")
            for k in (1, 3):
                o = outs[k]
                n += 1
                if "mir" not in o:
                    viol.append(("entry-points", f"compile_{via} after a program that failed inside the compiler ({tag}): {o.get('err')}: {o.get('msg')}; "
                                                 f"the command line compiles the same text"))
                    break
                dd = cm.first_diff(ref, normalize(strip_locations(o["mir"])))
                if dd:
                    viol.append(("entry-points", f"compile_{via} after a program that failed inside the compiler ({tag}): MIR differs from the command "
                                                 f"line's MIR of the same text: {dd}"))
                    break
        # ... and, with the compile timers enabled, after programs that fail while they are loaded (the timers are one more
        # piece of state an aborted compilation may leave behind; the MIR of the next program must not know)
        for tag, bad_src in FAIL_AT_IMPORT.items():
            bad_path = os.path.join(d, f"unloadable_{tag.replace(' ', '_')}.py")
            with open(bad_path, "w", encoding="utf-8") as f:
                f.write(bad_src)
            p = subprocess.run([sys.executable, "-m", "nv.real.fresh_hist", via, bad_path, path, bad_path, path], cwd=tmp,
                               env=dict(env, NV_TIMERS="1"), capture_output=True, text=True, timeout=300)
            try:
                outs = _json.loads(p.stdout)
            except ValueError:
                raise core.Infra(f"fresh_hist failed: {(p.stderr or p.stdout)[-300:]}")
            for k in (1, 3):
                o = outs[k]
                n += 1
                if "mir" not in o:
                    viol.append(("entry-points", f"compile_{via} with the timers enabled, after a program that {tag}: {o.get('err')}: {o.get('msg')}; "
                                                 f"the command line compiles the same text"))
                    break
                dd = cm.first_diff(ref, normalize(strip_locations(o["mir"])))
                if dd:
                    viol.append(("entry-points", f"compile_{via} with the timers enabled, after a program that {tag}: MIR differs from the command "
                                                 f"line's MIR of the same text: {dd}"))
                    break
    return viol, n


FAIL_AT_IMPORT = {
    "raises at import": "from nada_dsl import *\nraise RuntimeError('boom')\n",
    "imports a missing module": "from nada_dsl import *\nimport nv_no_such_helper_module\n\n\ndef nada_main():\n    return []\n",
    "has a syntax error": "from nada_dsl import *\ndef nada_main(:\n",
    "exits at import": "from nada_dsl import *\nraise SystemExit(3)\n",
    "raises inside nada_main": "from nada_dsl import *\n\n\ndef nada_main():\n    p = Party(name='P')\n    raise RuntimeError('inside')\n",
}

FAIL_INSIDE = {
    "non-output": "from nada_dsl import *\n\ndef nada_main():\n    p = Party(name=\"P\")\n    q = Party(name=\"Leftover\")\n    a = SecretInteger(Input(name=\"a\", party=q))\n"
                  "    extra = SecretInteger(Input(name=\"leftover\", party=q))\n    return [Output(a + extra, \"first\", p), a]\n",
    "duplicate-input": "from nada_dsl import *\n\ndef nada_main():\n    p = Party(name=\"P\")\n    b = SecretInteger(Input(name=\"b\", party=p))\n"
                       "    b2 = SecretInteger(Input(name=\"dup\", party=p))\n    b3 = SecretInteger(Input(name=\"dup\", party=p))\n"
                       "    return [Output(b * b, \"first\", p), Output(b2 + b3, \"second\", p)]\n",
}

FAILING = {
    "missing entry point": "from nada_dsl import *\n\ndef main():\n    return []\n",
    "raises": "from nada_dsl import *\n\ndef nada_main():\n    p = Party(name='P')\n    a = SecretInteger(Input(name='a', party=p))\n    return [Output(a + SecretBoolean(Input(name='b', party=p)), 'o', p)]\n",
    "raises at import": "from nada_dsl import *\nraise RuntimeError('boom')\n",
    "syntax error": "from nada_dsl import *\ndef nada_main(:\n",
    "raises without a message": "from nada_dsl import *\n\ndef nada_main():\n    raise ValueError()\n",
    "bare assert": "from nada_dsl import *\n\ndef nada_main():\n    p = Party(name='P')\n    assert p is None\n    return []\n",
    "branches on a secret": "from nada_dsl import *\n\ndef nada_main():\n    p = Party(name='P')\n    a = SecretInteger(Input(name='a', party=p))\n"
                            "    if a < a:\n        a = a + a\n    return [Output(a, 'o', p)]\n",
    "multi-line message": "from nada_dsl import *\n\ndef nada_main():\n    raise RuntimeError('first line\\nsecond line')\n",
    "returns a non-output": "from nada_dsl import *\n\ndef nada_main():\n    p = Party(name='P')\n    return [SecretInteger(Input(name='a', party=p))]\n",
    "returns None": "from nada_dsl import *\n\ndef nada_main():\n    return None\n",
    "output of a non-Nada value": "from nada_dsl import *\n\ndef nada_main():\n    p = Party(name='P')\n    return [Output(5, 'o', p)]\n",
    "KeyError message": "from nada_dsl import *\n\ndef nada_main():\n    return {}['missing']\n",
    "AttributeError while tracing": "from nada_dsl import *\n\ndef nada_main():\n    p = Party(name='P')\n    a = SecretInteger(Input(name='a', party=p))\n"
                                    "    return [Output(a.no_such_method(), 'o', p)]\n",
    "missing object field": "from nada_dsl import *\n\ndef nada_main():\n    p = Party(name='P')\n    a = SecretInteger(Input(name='a', party=p))\n"
                            "    o = Object.new({'k': a})\n    return [Output(o.missing, 'o', p)]\n",
    "exception that cannot describe itself": "from nada_dsl import *\n\n\nclass Refused(Exception):\n    def __str__(self):\n        raise RuntimeError('no text')\n\n\n"
                                             "def nada_main():\n    raise Refused()\n",
}

REASONS_MUST_AGREE = {"raises", "raises without a message", "bare assert", "branches on a secret", "multi-line message", "returns a non-output",
                      "output of a non-Nada value", "KeyError message", "AttributeError while tracing", "missing object field"}

# file names the property quantifies over: coinciding with imported / standard-library / package modules, dots, dashes
FILE_NAMES = ["json.py", "nada_dsl.py", "os.py", "base64.py", "typing.py", "timer.py", "compile.py", "temp_program.py", "my.prog.py",
              "my-prog.py", "a b.py", "sys.py", "importlib.py", "traceback.py", "dataclasses.py", "1prog.py", "__main__.py", "prog.v2.final.py"]


def imported_stdlib_names():
    """file names coinciding with the standard-library modules that nada_dsl's own modules import (wherever the import
    statement stands: a deferred import is resolved while the program's directory is first on sys.path)"""
    import ast
    names = set()
    root = os.path.join(core.REPO, "nada_dsl")
    for dirpath, _, files in os.walk(root):
        for fn in files:
            if not fn.endswith(".py"):
                continue
            try:
                with open(os.path.join(dirpath, fn), encoding="utf-8") as f:
                    tree = ast.parse(f.read())
            except (SyntaxError, OSError):
                continue
            for node in ast.walk(tree):
                if isinstance(node, ast.Import):
                    names.update(a.name.split(".")[0] for a in node.names)
                elif isinstance(node, ast.ImportFrom) and node.level == 0 and node.module:
                    names.add(node.module.split(".")[0])
    std = set(getattr(sys, "stdlib_module_names", ()))
    return sorted(n + ".py" for n in names if n in std and n not in ("sys", "builtins", "__future__"))


# a program that reaches literals (folded and written), functions, arrays and tuples: whatever the DSL imports late is imported
LITERAL_PROG = ("from nada_dsl import *\n\n\ndef nada_main():\n    p = Party(name=\"P\")\n    a = SecretInteger(Input(name=\"a\", party=p))\n\n"
                "    @nada_fn\n    def f(x: SecretInteger) -> SecretInteger:\n        return x * Integer(3) + Integer(2) * Integer(5)\n\n"
                "    arr = Array(SecretInteger(Input(name=\"arr\", party=p)), size=3)\n    t = Tuple.new(a, f(a))\n"
                "    return [Output(arr.map(f), \"m\", p), Output(a + Integer(7), \"o\", p), Output(t, \"t\", p)]\n")
# the same program with imports of standard-library modules whose names the file may coincide with
IMPORTING = "import json\nimport os\nimport typing\n"


DASH_NAMES = ["-neg.py", "-script.py", "--help.py", "-s.py"]


def check_names(src, tmp, names, reference):
    """the same text under every file name must give the reference result (up to source-location details)"""
    viol = []
    for j, name in enumerate(names):
        # one directory per file name (the chunks of names run in parallel: a directory shared between them would put e.g. a
        # `hashlib.py` next to `-neg.py`, which is run from its own directory — and shadow the interpreter's module there)
        d = os.path.join(tmp, f"names{abs(hash(src)) % 10**6}_{abs(hash(name)) % 10**8}_{j}")
        os.makedirs(d, exist_ok=True)
        path = os.path.join(d, name)
        with open(path, "w", encoding="utf-8") as f:
            f.write(src)
        # run from a neutral directory: with `python -m`, the current directory is first on sys.path, and a file named
        # like a standard-library module there would shadow it for the interpreter itself (not the DSL's doing)
        neutral = os.path.join(tmp, "neutral_cwd")
        os.makedirs(neutral, exist_ok=True)
        if name in DASH_NAMES:
            # a file whose name begins with a dash, given as the user types it: by its bare name, from its directory
            rc, out = cli([name], d, {})
        else:
            rc, out = cli([path], neutral, {})
        obj, err = parse_line(out)
        if err:
            viol.append(("envelope", f"file name {name!r}: {err}: {out[:200]!r}"))
            continue
        if obj["result"] != reference["result"]:
            viol.append(("file-name", f"compiled from a file named {name!r}: {obj['result']} ({obj.get('reason', '')[:160]}); "
                                      f"the same text under a neutral name: {reference['result']}"))
        elif obj["result"] == "Success":
            dd = cm.first_diff(strip_locations(obj["_mir"]), strip_locations(reference["_mir"]))
            if dd:
                viol.append(("file-name", f"MIR differs when the file is named {name!r}: {dd}"))
    return viol


def timer_program(spec):
    """program text that fails exactly where the abstract program says: while it is loaded, inside nada_main, or while the
    i-th output is traversed (two different inputs under one name reach the compiler there)"""
    lines = ["from nada_dsl import *"]
    if spec["importFails"]:
        lines.append("raise RuntimeError('while the program is loaded')")
    lines += ["", "", "def nada_main():", "    p = Party(name='P')"]
    if spec["mainFails"]:
        lines.append("    raise RuntimeError('inside nada_main')")
    outs = []
    for i, (name, fails) in enumerate(spec["outputs"]):
        if fails:
            lines += [f"    x{i} = SecretInteger(Input(name='dup{i}', party=p))", f"    y{i} = SecretInteger(Input(name='dup{i}', party=p))", f"    v{i} = x{i} + y{i}"]
        else:
            lines += [f"    x{i} = SecretInteger(Input(name='in{i}', party=p))", f"    v{i} = x{i} * x{i}"]
        outs.append(f"Output(v{i}, {name!r}, p)")
    lines.append("    return [" + ", ".join(outs) + "]")
    return "\n".join(lines) + "\n"


def timer_correspondence(res, tier, tmp):
    """K12 — tie of `Runtime.runHistory` (Lean: the timers as a state machine, proved balanced for every history) to the code:
    random histories of compilations that fail at every stage, through both entry points, run in a new interpreter with the
    timers enabled and every `start` / `stop` recorded; the model, given the same abstract history, must produce the same
    calls in the same order, the same outcomes, and the same (empty) set of running timers."""
    import subprocess
    import sys
    rng = R.make("C13timers")
    n = 8 if tier == "quick" else 80
    d = os.path.join(tmp, "timers")
    os.makedirs(d, exist_ok=True)
    stats = {"histories": 0, "compilations": 0, "calls_compared": 0, "disagreements": 0, "left_running": 0}
    reqs, reals = [], []
    for h in range(n):
        hist, args = [], []
        for k in range(rng.randint(2, 6)):
            shape = rng.choice(["good", "good", "import", "main", "output", "output"])
            outs = [[rng.choice(["o", "out", "total", "o"]), False] for _ in range(rng.randint(1, 4))]
            if shape == "output":
                outs[rng.randrange(len(outs))][1] = True
            spec = {"string": rng.random() < 0.4, "importFails": shape == "import", "mainFails": shape == "main", "outputs": outs}
            path = os.path.join(d, f"h{h}_p{k}.py")
            with open(path, "w", encoding="utf-8") as f:
                f.write(timer_program(spec))
            hist.append(spec)
            args.append(("string:" if spec["string"] else "script:") + path)
        env = dict(os.environ, PYTHONPATH=os.pathsep.join([core.REPO, os.path.join(core.VERIF, "harness")]), PYTHONDONTWRITEBYTECODE="1")
        env.pop("NADA_TIMER", None)
        p = subprocess.run([sys.executable, "-m", "nv.real.timer_hist"] + args, cwd=d, env=env, capture_output=True, text=True, timeout=300)
        try:
            real = json.loads(p.stdout)
        except ValueError:
            raise core.Infra(f"timer_hist failed: {(p.stderr or p.stdout)[-300:]}")
        reqs.append({"k": "timers", "history": hist})
        reals.append((hist, real))
    for (hist, real), model in zip(reals, core.driver(reqs)):
        if "error" in model:
            raise core.Infra(f"timers request rejected: {model}")
        stats["histories"] += 1
        stats["compilations"] += len(hist)
        stats["calls_compared"] += len(real["log"])
        if real["running"]:
            stats["left_running"] += 1
        # what the property says, on the real run: a program that fails nowhere compiles whatever was compiled before it
        for k, (spec, oc) in enumerate(zip(hist, real["outcomes"])):
            good = not spec["importFails"] and not spec["mainFails"] and not any(f for _, f in spec["outputs"])
            if good and oc != 0 or oc == 1:
                res.violation({"property": "C13", "kind": "timers-history", "history": hist, "position": k, "outcomes": real["outcomes"],
                               "sources": [timer_program(s_) for s_ in hist]},
                              f"timers enabled, compilation {k + 1} of {len(hist)} in one process ({'compile_string' if spec['string'] else 'compile_script'}): "
                              + ("ends with a TimerError" if oc == 1 else "a program that fails nowhere does not compile")
                              + f" after outcomes {real['outcomes'][:k]} (0 compiled, 2 failed)")
                break
        if real["log"] != model["log"] or real["outcomes"] != model["outcomes"] or real["running"] != sorted(model["running"]):
            stats["disagreements"] += 1
            if stats["disagreements"] <= 2:
                j = next((i for i, (a, b) in enumerate(zip(real["log"], model["log"])) if a != b), min(len(real["log"]), len(model["log"])))
                res.broken.append({"decl": "Runtime.runHistory (Lean timers state machine) vs recorded timer.start / timer.stop calls",
                                   "msg": f"call {j}: real {real['log'][j:j + 1]}, model {model['log'][j:j + 1]}; outcomes real {real['outcomes']} model "
                                          f"{model['outcomes']}; running real {real['running']} model {model['running']}", "history": hist})
    return stats


def run(res, tier):
    n = 10 if tier == "quick" else 150
    seeds = ["0", "1", "4242"] if tier == "quick" else ["0", "1", "2", "4242", "random"]
    tmp = tempfile.mkdtemp(prefix="nvc13")
    progs = []
    idx = 0
    kinds = list(programs.Gen.SCENARIOS)
    while len(progs) < n and idx < n * 6:
        scen = kinds[idx % len(kinds)] if idx % 3 == 0 else None
        m, _ = programs.generate("C13", idx, max_cmds=20 if tier == "quick" else 45, scenario=scen)
        src = render.render(m.events, m.results)
        idx += 1
        if src is not None:
            progs.append(src)
    reset_globals()
    nontrivial = set()
    evals = 0
    results = []
    try:
        with ThreadPoolExecutor(max_workers=8) as ex:
            futs = [ex.submit(check_program, i, src, tmp, seeds) for i, src in enumerate(progs)]
            for i, (f, src) in enumerate(zip(futs, progs)):
                viol, result = f.result()
                evals += 1
                results.append(result)
                if result == "Success":
                    nontrivial.add(src)
                for kind, text in viol:
                    res.violation({"property": "C13", "kind": kind, "text": text, "source": src}, f"program {i}: {kind}: {text}"[:400])
        # operations created in several files
        mseeds = [str(i) for i in range(6 if tier == "quick" else 24)]
        viol, result = check_program("multi", MULTI_FILE, tmp, mseeds, HELPERS)
        evals += 1
        results.append(result)
        if result != "Success":
            viol.append(("envelope", f"the multi-file program does not compile: {result}"))
        else:
            dm = os.path.join(tmp, "pmulti")
            refobj, _ = parse_line(cli([os.path.join(dm, "prog_multi.py")], dm, {"PYTHONHASHSEED": "0"})[1])
            if refobj and refobj.get("result") == "Success":
                v2, n2 = programmatic_entry_points(tmp, MULTI_FILE, HELPERS, refobj["_mir"])
                viol += v2
                evals += n2
        for kind, text in viol:
            res.violation({"property": "C13", "kind": kind, "text": text, "source": MULTI_FILE, "helpers": HELPERS}, f"multi-file program: {kind}: {text}"[:400])
        # a program with a dataclass: every entry point, command line and programmatic (three calls each in one process)
        viol, result = check_program("dc", DATACLASS_PROG, tmp, seeds[:2])
        evals += 1
        results.append(result)
        if result != "Success":
            viol.append(("envelope", f"the program defining a dataclass does not compile from a file: {result}"))
        else:
            ddc = os.path.join(tmp, "pdc")
            refobj, _ = parse_line(cli([os.path.join(ddc, "prog_dc.py")], ddc, {"PYTHONHASHSEED": "0"})[1])
            if refobj and refobj.get("result") == "Success":
                v2, n2 = programmatic_entry_points(os.path.join(tmp, "dcp"), DATACLASS_PROG, {}, refobj["_mir"])
                viol += v2
                evals += n2
        for kind, text in viol:
            res.violation({"property": "C13", "kind": kind, "text": text, "source": DATACLASS_PROG}, f"program defining a dataclass: {kind}: {text}"[:400])
        # file names: two programs (one of them importing standard-library modules) under every listed name
        name_evals = 0
        derived = imported_stdlib_names()
        for src in [s for s in progs[:2]] + [IMPORTING + s for s in progs[:1]] + [DATACLASS_PROG, LITERAL_PROG]:
            d = os.path.join(tmp, f"ref{name_evals}")
            os.makedirs(d, exist_ok=True)
            path = os.path.join(d, "neutral_reference_name.py")
            with open(path, "w", encoding="utf-8") as f:
                f.write(src)
            ref, err = parse_line(cli([path], d, {})[1])
            if err:
                continue
            names = FILE_NAMES if tier != "quick" else FILE_NAMES[:10]
            if src == LITERAL_PROG or tier != "quick":
                names = names + [n for n in derived if n not in names] + DASH_NAMES
            with ThreadPoolExecutor(max_workers=8) as ex:
                chunks = [names[i::8] for i in range(8)]
                for viol in ex.map(lambda ch: check_names(src, tmp, ch, ref), chunks):
                    for kind, text in viol:
                        res.violation({"property": "C13", "kind": kind, "text": text, "source": src}, f"{kind}: {text}"[:400])
            name_evals += len(names)
            evals += len(names)
        # failing programs: exactly one Failure object with a reason
        for label, src in FAILING.items():
            d = os.path.join(tmp, "f" + str(abs(hash(label)) % 1000))
            os.makedirs(d, exist_ok=True)
            path = os.path.join(d, "failing_prog.py")
            with open(path, "w", encoding="utf-8") as f:
                f.write(src)
            reasons = {}
            for args, envx in (([path], {}), (["-s", base64.b64encode(src.encode()).decode()], {}), ([path], {"NADA_TIMER": "1"})):
                rc, out = cli(args, d, envx)
                evals += 1
                obj, err = parse_line(out)
                if err or obj["result"] != "Failure":
                    res.violation({"property": "C13", "kind": "failure-envelope", "case": label, "args": args[:1], "stdout": out[:300], "source": src},
                                  f"{label}: expected one Failure object, got {err or obj['result']}")
                else:
                    import re
                    # source-location details (file name, line) at the head of a message may differ between entry points
                    reasons[(args[0] == "-s", bool(envx))] = re.sub(r"^\S+:\d+: ", "", str(obj.get("reason")))
            # a program that has an entry point and raises: every entry point reports what the program raised
            # (the two wordings for a missing entry point and the file names inside syntax errors legitimately differ)
            if label in REASONS_MUST_AGREE and len(set(reasons.values())) > 1:
                res.violation({"property": "C13", "kind": "failure-reason", "case": label, "reasons": {str(k): v for k, v in reasons.items()}, "source": src},
                              f"{label}: the entry points report different reasons for the same program: {sorted(set(map(str, reasons.values())))}"[:400])
            if label in REASONS_MUST_AGREE and any("entrypoint function is missing" in str(r) for r in reasons.values()):
                res.violation({"property": "C13", "kind": "failure-reason", "case": label, "reasons": {str(k): v for k, v in reasons.items()}, "source": src},
                              f"{label}: the program defines nada_main and raises, but the reported reason says the entry point is missing")
        # no program argument / unsupported argument lists
        for args in ([], ["a.py", "b.py"], ["-x", "y"]):
            rc, out = cli(args, tmp, {})
            evals += 1
            obj, err = parse_line(out)
            if err or obj["result"] != "Failure":
                res.violation({"property": "C13", "kind": "failure-envelope", "args": args, "stdout": out[:300]},
                              f"arguments {args}: expected one Failure object, got {err or obj['result']}")
        timer_stats = timer_correspondence(res, tier, tmp)
        # the same program text compiled from its path after programs of other directories that have a helper module of the same
        # name, in several orders (A, B, A, …): the MIR must be the one a new interpreter gives (the sequences of C08's check)
        from . import c08 as _c08

        class _Relabel:
            def __init__(self, inner):
                self.inner = inner

            def violation(self, obj, text, **kw):
                self.inner.violation(dict(obj, property="C13", c08_kind=obj.get("kind"), kind="same-named-helpers"), text, **kw)
        _c08.same_named_helpers(_Relabel(res), tier)
    finally:
        shutil.rmtree(tmp, ignore_errors=True)
    res.coverage.update({
        "timers_state_machine_K12": timer_stats,
        "evaluations": evals, "distinct_nontrivial": len(nontrivial),
        "rule": "generated programs rendered to Python source and compiled in fresh processes: file path under "
                f"PYTHONHASHSEED in {seeds}, base64 entry point under two hash seeds, both again with NADA_TIMER=1; stdout must be "
                "byte-identical across hash seeds and timers, one JSON object per run, MIRs equal up to source locations across entry "
                "points; one program whose operations are created in five helper modules next to it, under 6 (quick) / 24 hash seeds; plus programs that fail (no entry point, raises, import error, syntax error) and bad argument lists; "
                "non-trivial = distinct program texts that compile successfully",
        "program_results": {r: results.count(r) for r in set(results)},
        "fresh_processes": evals * (len(seeds) + 4),
        "samples": [{"source": p[:600]} for p in progs[:2]],
    })
    res.assumptions += ["hash-seed independence is observed on the seeds tried, not proved",
                        "programs are rendered from the layer-B command language (no user-level Python control flow)"]


def replay(obj):
    tmp = tempfile.mkdtemp(prefix="nvc13")
    try:
        if obj.get("kind") == "same-named-helpers":
            from . import c08 as _c08
            return _c08.replay(dict(obj, kind=obj.get("c08_kind")))
        if obj.get("kind") == "timers-history":
            import subprocess
            import sys
            args = []
            for k, (spec, text) in enumerate(zip(obj["history"], obj["sources"])):
                path = os.path.join(tmp, f"p{k}.py")
                with open(path, "w", encoding="utf-8") as f:
                    f.write(text)
                args.append(("string:" if spec["string"] else "script:") + path)
            env = dict(os.environ, PYTHONPATH=os.pathsep.join([core.REPO, os.path.join(core.VERIF, "harness")]), PYTHONDONTWRITEBYTECODE="1")
            p = subprocess.run([sys.executable, "-m", "nv.real.timer_hist"] + args, cwd=tmp, env=env, capture_output=True, text=True, timeout=300)
            real = json.loads(p.stdout)
            print(real["outcomes"], real["running"])
            bad = 1 in real["outcomes"] or real["outcomes"][obj["position"]] != 0
            if bad:
                print("VIOLATION property=C13 replay=(replayed)")
            return 1 if bad else 0
        if obj.get("kind") == "file-name":
            d = os.path.join(tmp, "ref")
            os.makedirs(d, exist_ok=True)
            path = os.path.join(d, "neutral_reference_name.py")
            with open(path, "w", encoding="utf-8") as f:
                f.write(obj["source"])
            ref, err = parse_line(cli([path], d, {})[1])
            viol = [("envelope", err)] if err else check_names(obj["source"], tmp, FILE_NAMES, ref)
            print(viol[:4])
            bad = bool(viol)
        elif obj.get("kind") == "failure-envelope" and "source" in obj:
            d = os.path.join(tmp, "f")
            os.makedirs(d, exist_ok=True)
            path = os.path.join(d, "failing_prog.py")
            with open(path, "w", encoding="utf-8") as f:
                f.write(obj["source"])
            bad = False
            for args, envx in (([path], {}), (["-s", base64.b64encode(obj["source"].encode()).decode()], {}), ([path], {"NADA_TIMER": "1"})):
                o, err = parse_line(cli(args, d, envx)[1])
                print(args[:1], err or o["result"])
                bad = bad or bool(err) or o["result"] != "Failure"
        elif obj.get("kind") == "failure-envelope":
            o, err = parse_line(cli(obj.get("args", []), tmp, {})[1])
            bad = bool(err) or o["result"] != "Failure"
        else:
            seeds = [str(i) for i in range(24)] if obj.get("helpers") else ["0", "1", "4242"]
            viol, _ = check_program(0, obj["source"], tmp, seeds, obj.get("helpers"))
            print(viol)
            bad = bool(viol)
    finally:
        shutil.rmtree(tmp, ignore_errors=True)
    if bad:
        print("VIOLATION property=C13 replay=(replayed)")
    return 1 if bad else 0
