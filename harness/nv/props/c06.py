"""C06 — literal-only expressions fold to the exact integer or boolean result."""
import json
from .. import core
from ..gen import rng as R
from ..real.env import reset_globals

MODULE = "NadaVerif.Props.C06"
TRANSLATORS = None
THEOREMS = [f"NadaVerif.C06.{n}" for n in (
    "fold_add_exact", "fold_sub_exact", "fold_mul_exact", "fold_pow_exact", "fold_shl_exact",
    "fold_shr_exact", "fold_divmod_law", "fold_div_zero", "fold_cmp_exact", "fold_logic_exact",
    "fold_result_base", "table_folds_exactly_literals")]

ARITH = ["add", "sub", "mul", "div", "mod"]
REL = ["lt", "gt", "le", "ge", "eq", "ne"]
LOGIC = ["and", "or", "xor", "eq", "ne"]
PYOP = {
    "add": lambda a, b: a + b, "sub": lambda a, b: a - b, "mul": lambda a, b: a * b, "div": lambda a, b: a / b,
    "mod": lambda a, b: a % b, "pow": lambda a, b: a ** b, "shl": lambda a, b: a << b, "shr": lambda a, b: a >> b,
    "lt": lambda a, b: a < b, "gt": lambda a, b: a > b, "le": lambda a, b: a <= b, "ge": lambda a, b: a >= b,
    "eq": lambda a, b: a == b, "ne": lambda a, b: a != b, "and": lambda a, b: a & b, "or": lambda a, b: a | b,
    "xor": lambda a, b: a ^ b,
}
# exact mathematical results (Python ints are exact); division handled by the divmod law
EXACT = {
    "add": lambda a, b: a + b, "sub": lambda a, b: a - b, "mul": lambda a, b: a * b,
    "pow": lambda a, b: a ** b, "shl": lambda a, b: a * 2 ** b, "shr": lambda a, b: a // 2 ** b,
    "lt": lambda a, b: a < b, "gt": lambda a, b: a > b, "le": lambda a, b: a <= b, "ge": lambda a, b: a >= b,
    "eq": lambda a, b: a == b, "ne": lambda a, b: a != b,
    "and": lambda a, b: a and b, "or": lambda a, b: a or b, "xor": lambda a, b: a != b,
}


def real_fold(op, base, a, b):
    """Fold on the real literal classes: ('ok', value, class name, #ops recorded) or ('err', class)."""
    from nada_dsl import Integer, UnsignedInteger, Boolean
    from nada_dsl import ast_util
    cls = {"int": Integer, "uint": UnsignedInteger, "bool": Boolean}[base]
    reset_globals()
    x = cls(a)
    y = UnsignedInteger(b) if op in ("shl", "shr") else cls(b)   # shift amounts are unsigned
    before = ast_util.OPERATION_ID_COUNTER
    try:
        r = (~x) if op == "invert" else PYOP[op](x, y)
    except Exception as exc:  # pylint: disable=broad-except
        return ("err", type(exc).__name__)
    op_rec = ast_util.AST_OPERATIONS.get(r.child.id)
    return ("ok", r.value, type(r).__name__, ast_util.OPERATION_ID_COUNTER - before,
            type(op_rec).__name__, getattr(op_rec, "value", None), str(getattr(op_rec, "ty", None)))


def gen_cases(rng, n):
    cases = []
    # fixed corpus first (past failures / the witnesses of the fixed finding F-C06-1)
    corpus = [("div", "int", -7, 2), ("mod", "int", -7, 2), ("div", "int", 2**60 + 1, 1), ("div", "int", 10**400, 1),
              ("div", "int", 7, -2), ("mod", "int", 7, -2), ("div", "int", -7, -2), ("div", "uint", 2**64 + 3, 3),
              ("shr", "int", -5, 1), ("shl", "int", -3, 70), ("pow", "int", -3, 5), ("pow", "int", 0, 0),
              ("div", "int", 5, 0), ("mod", "uint", 5, 0), ("shl", "int", 1, -1), ("sub", "uint", 3, 5)]
    cases += corpus
    while len(cases) < n:
        base = rng.choice(["int", "int", "uint"])
        fam = rng.random()
        if fam < 0.45:
            op = rng.choice(ARITH)
            a, b = R.big_int(rng), R.big_int(rng)
            if base == "uint" and rng.random() < 0.8:
                a, b = abs(a), abs(b)
        elif fam < 0.6:
            op = "pow"
            a, b = R.big_int(rng) % (2**70) * rng.choice([1, -1]), rng.choice([0, 1, 2, 3, 5, 17, 40])
        elif fam < 0.75:
            op = rng.choice(["shl", "shr"])
            a, b = R.big_int(rng), rng.choice([0, 1, 2, 7, 31, 63, 64, 65, 200, -1])
            base = rng.choice(["int", "uint"])
        else:
            op = rng.choice(REL)
            a, b = R.big_int(rng), R.big_int(rng)
            if rng.random() < 0.3:
                b = a
        cases.append((op, base, a, b))
    for op in LOGIC:
        for p in (False, True):
            for q in (False, True):
                cases.append((op, "bool", p, q))
    cases.append(("invert", "bool", True, True))
    cases.append(("invert", "bool", False, False))
    return cases


def enc(v):
    return v if isinstance(v, bool) else str(v)


def oracle(op, base, a, b, real):
    """C06 on one real folding result. Returns None if fine, else text."""
    if real[0] == "err":
        exc = real[1]
        if op in ("div", "mod") and b == 0 and exc == "ZeroDivisionError":
            return None
        if op in ("shl", "shr") and b < 0:
            return None   # negative shift counts are outside the property
        return f"literal-only {op} raised {exc}"
    _, val, cls, nops, opkind, opval, opty = real
    want_cls = {"int": "Integer", "uint": "UnsignedInteger", "bool": "Boolean"}[
        "bool" if op in REL + ["and", "or", "xor", "invert"] else base]
    if cls != want_cls or opty != want_cls:
        return f"folded literal has type {cls}/{opty}, expected {want_cls}"
    if nops != 1 or opkind != "LiteralASTOperation":
        return f"folding recorded {nops} operations of kind {opkind}, expected exactly one Literal"
    if opval != val:
        return f"recorded literal value {opval!r} differs from the wrapper's value {val!r}"
    if op == "invert":
        return None if val is (not a) else f"~{a} folded to {val}"
    if op == "pow" and b < 0:
        return None   # negative exponents are outside the property
    if op in ("div", "mod"):
        return None   # checked pairwise by the divmod law
    exact = EXACT[op](a, b)
    if type(val) is not type(exact) or val != exact:
        return f"{op}({a}, {b}) folded to {val!r}, exact result is {exact!r}"
    return None


def divmod_law(base, a, b):
    q = real_fold("div", base, a, b)
    r = real_fold("mod", base, a, b)
    if b == 0:
        return None
    if q[0] != "ok" or r[0] != "ok":
        return f"div/mod of literals ({a}, {b}) raised {q[1] if q[0] == 'err' else r[1]}"
    qv, rv = q[1], r[1]
    if type(qv) is not int or type(rv) is not int:
        return f"quotient/remainder are not integers: {qv!r}, {rv!r}"
    if a != qv * b + rv or not abs(rv) < abs(b):
        return f"a={a}, b={b}: q={qv}, r={rv} violate a = q*b + r, |r| < |b|"
    return None


def run(res, tier):
    rng = R.make("C06")
    n = 400 if tier == "quick" else 20000
    cases = gen_cases(rng, n)
    reqs = [{"k": "fold", "op": op, "base": base, "a": enc(a), "b": enc(b)} for op, base, a, b in cases]
    answers = core.driver(reqs)
    dist = {}
    nontrivial = set()
    diffs = []
    gaps = 0
    for (op, base, a, b), ans in zip(cases, answers):
        real = real_fold(op, base, a, b)
        dist[op] = dist.get(op, 0) + 1
        bad = oracle(op, base, a, b, real)
        if bad is None and op in ("div", "mod"):
            bad = divmod_law(base, a, b)
        if bad:
            res.violation({"property": "C06", "kind": "fold", "op": op, "base": base, "a": enc(a), "b": enc(b),
                           "observed": real, "why": bad}, f"fold {op}[{base}]({a}, {b}): {bad}"[:300])
            continue
        # K4: the Python-semantics model vs CPython
        if "err" in ans and ans["err"] == "modelGap":
            gaps += 1
            continue
        if real[0] == "ok":
            model = ans.get("ok")
            same = model == enc(real[1])
        else:
            same = ans.get("err") == real[1]
        if not same:
            diffs.append({"op": op, "base": base, "a": enc(a), "b": enc(b), "model": ans, "real": real[:2]})
        if real[0] == "ok" and (abs(a) > 20 or abs(b) > 20 if not isinstance(a, bool) else True):
            nontrivial.add((op, base, a, b))
    if diffs:
        res.broken.append({"decl": "K4 (Py/Int.lean vs CPython on foldExpr)", "msg": json.dumps(diffs[:3])[:600]})
    res.coverage.update({
        "evaluations": len(cases),
        "distinct_nontrivial": len(nontrivial),
        "rule": "operand pairs from magnitude classes (small, 2^31, 2^53±1, 2^64±1, 2^128, 2^256, 10^400, random bit strings) "
                "x all foldable operators x {Integer, UnsignedInteger}; all 4 boolean pairs x {&,|,^,==,!=}, ~; "
                "non-trivial = distinct cases that fold successfully with an operand of magnitude > 20 (or booleans)",
        "operator_distribution": dist,
        "model_gap_skipped": gaps,
        "k4_disagreements": len(diffs),
        "samples": [{"op": c[0], "base": c[1], "a": enc(c[2]), "b": enc(c[3])} for c in cases[16:40:4]],
    })
    res.assumptions += [
        "Py/Int.lean models CPython int/bool arithmetic (validated by K4 on this run's cases); float results of "
        "negative exponents are outside the property and not predicted",
        "T2 is syntactic: expressions outside its grammar become `untranslated` and break the exactness theorems",
    ]


def replay(obj):
    op, base = obj["op"], obj["base"]
    a = obj["a"] if isinstance(obj["a"], bool) else int(obj["a"])
    b = obj["b"] if isinstance(obj["b"], bool) else int(obj["b"])
    real = real_fold(op, base, a, b)
    bad = oracle(op, base, a, b, real)
    if bad is None and op in ("div", "mod"):
        bad = divmod_law(base, a, b)
    print(json.dumps({"op": op, "base": base, "a": str(a), "b": str(b), "real": real, "verdict": bad or "ok"}, default=str)[:2000])
    if bad:
        print("VIOLATION property=C06 replay=(replayed)")
    return 1 if bad else 0
