"""C06 — literal-only expressions fold to the exact integer or boolean result."""
import json
from .. import core
from ..gen import rng as R
from ..real.env import reset_globals

MODULE = "NadaVerif.Props.C06"
TRANSLATORS = None
THEOREMS = [f"NadaVerif.C06.{n}" for n in (
    "fold_add_exact", "fold_sub_exact", "fold_mul_exact", "fold_pow_exact", "fold_shl_exact",
    "fold_shr_exact", "fold_divmod_law", "fold_div_zero", "fold_cmp_exact", "fold_logic_exact",
    "fold_result_base", "table_folds_exactly_literals")]

ARITH = ["add", "sub", "mul", "div", "mod"]
REL = ["lt", "gt", "le", "ge", "eq", "ne"]
LOGIC = ["and", "or", "xor", "eq", "ne"]
PYOP = {
    "add": lambda a, b: a + b, "sub": lambda a, b: a - b, "mul": lambda a, b: a * b, "div": lambda a, b: a / b,
    "mod": lambda a, b: a % b, "pow": lambda a, b: a ** b, "shl": lambda a, b: a << b, "shr": lambda a, b: a >> b,
    "lt": lambda a, b: a < b, "gt": lambda a, b: a > b, "le": lambda a, b: a <= b, "ge": lambda a, b: a >= b,
    "eq": lambda a, b: a == b, "ne": lambda a, b: a != b, "and": lambda a, b: a & b, "or": lambda a, b: a | b,
    "xor": lambda a, b: a ^ b,
}
# exact mathematical results (Python ints are exact); division handled by the divmod law
EXACT = {
    "add": lambda a, b: a + b, "sub": lambda a, b: a - b, "mul": lambda a, b: a * b,
    "pow": lambda a, b: a ** b, "shl": lambda a, b: a * 2 ** b, "shr": lambda a, b: a // 2 ** b,
    "lt": lambda a, b: a < b, "gt": lambda a, b: a > b, "le": lambda a, b: a <= b, "ge": lambda a, b: a >= b,
    "eq": lambda a, b: a == b, "ne": lambda a, b: a != b,
    "and": lambda a, b: a and b, "or": lambda a, b: a or b, "xor": lambda a, b: a != b,
}


def real_fold(op, base, a, b):
    """Fold on the real literal classes: ('ok', value, class name, #ops recorded) or ('err', class)."""
    from nada_dsl import Integer, UnsignedInteger, Boolean
    from nada_dsl import ast_util
    cls = {"int": Integer, "uint": UnsignedInteger, "bool": Boolean}[base]
    reset_globals()
    x = cls(a)
    y = UnsignedInteger(b) if op in ("shl", "shr") else cls(b)   # shift amounts are unsigned
    before = ast_util.OPERATION_ID_COUNTER
    try:
        r = (~x) if op == "invert" else PYOP[op](x, y)
    except Exception as exc:  # pylint: disable=broad-except
        return ("err", type(exc).__name__)
    op_rec = ast_util.AST_OPERATIONS.get(r.child.id)
    return ("ok", r.value, type(r).__name__, ast_util.OPERATION_ID_COUNTER - before,
            type(op_rec).__name__, getattr(op_rec, "value", None), str(getattr(op_rec, "ty", None)))


def gen_cases(rng, n):
    cases = []
    # fixed corpus first (past failures / the witnesses of the fixed finding F-C06-1)
    corpus = [("div", "int", -7, 2), ("mod", "int", -7, 2), ("div", "int", 2**60 + 1, 1), ("div", "int", 10**400, 1),
              ("div", "int", 7, -2), ("mod", "int", 7, -2), ("div", "int", -7, -2), ("div", "uint", 2**64 + 3, 3),
              ("shr", "int", -5, 1), ("shl", "int", -3, 70), ("pow", "int", -3, 5), ("pow", "int", 0, 0),
              ("div", "int", 5, 0), ("mod", "uint", 5, 0), ("shl", "int", 1, -1), ("sub", "uint", 3, 5)]
    cases += corpus
    # magnitudes of several hundred / a thousand digits, with long runs of zeros inside (a value that is put together from pieces
    # shows there), below the interpreter's 4300-digit limit for int -> str
    wide = [10**600, 10**600 + 7, 10**1100 + 10**20, 10**512, 10**512 - 1, 10**1024 + 10**511 + 3, 7 * 10**2000 + 1]
    cases += [("add", "int", wide[0], 7), ("sub", "int", wide[2], wide[2] - 10**20 - 3), ("mul", "int", 10**300 + 1, 10**300), ("pow", "int", 10, 600),
              ("add", "uint", wide[3], 0), ("sub", "int", wide[4], -1), ("div", "int", wide[5], 10**511), ("mod", "int", wide[5], 10**512),
              ("mul", "int", -wide[1], 1), ("shl", "uint", wide[1], 3), ("add", "int", wide[6], wide[0]), ("div", "int", wide[6], -7)]
    while len(cases) < n:
        base = rng.choice(["int", "int", "uint"])
        fam = rng.random()
        if fam < 0.45:
            op = rng.choice(ARITH)
            a, b = R.big_int(rng), R.big_int(rng)
            if base == "uint" and rng.random() < 0.8:
                a, b = abs(a), abs(b)
        elif fam < 0.6:
            op = "pow"
            a, b = R.big_int(rng) % (2**70) * rng.choice([1, -1]), rng.choice([0, 1, 2, 3, 5, 17, 40])
        elif fam < 0.75:
            op = rng.choice(["shl", "shr"])
            a, b = R.big_int(rng), rng.choice([0, 1, 2, 7, 31, 63, 64, 65, 200, -1])
            base = rng.choice(["int", "uint"])
        else:
            op = rng.choice(REL)
            a, b = R.big_int(rng), R.big_int(rng)
            if rng.random() < 0.3:
                b = a
        cases.append((op, base, a, b))
    for op in LOGIC:
        for p in (False, True):
            for q in (False, True):
                cases.append((op, "bool", p, q))
    cases.append(("invert", "bool", True, True))
    cases.append(("invert", "bool", False, False))
    return cases


def enc(v):
    return v if isinstance(v, bool) else str(v)


def oracle(op, base, a, b, real):
    """C06 on one real folding result. Returns None if fine, else text."""
    if real[0] == "err":
        exc = real[1]
        if op in ("div", "mod") and b == 0 and exc == "ZeroDivisionError":
            return None
        if op in ("shl", "shr") and b < 0:
            return None   # negative shift counts are outside the property
        return f"literal-only {op} raised {exc}"
    _, val, cls, nops, opkind, opval, opty = real
    want_cls = {"int": "Integer", "uint": "UnsignedInteger", "bool": "Boolean"}[
        "bool" if op in REL + ["and", "or", "xor", "invert"] else base]
    if cls != want_cls or opty != want_cls:
        return f"folded literal has type {cls}/{opty}, expected {want_cls}"
    if nops != 1 or opkind != "LiteralASTOperation":
        return f"folding recorded {nops} operations of kind {opkind}, expected exactly one Literal"
    if opval != val:
        return f"recorded literal value {opval!r} differs from the wrapper's value {val!r}"
    if op == "invert":
        return None if val is (not a) else f"~{a} folded to {val}"
    if op == "pow" and b < 0:
        return None   # negative exponents are outside the property
    if op in ("div", "mod"):
        return None   # checked pairwise by the divmod law
    exact = EXACT[op](a, b)
    if type(val) is not type(exact) or val != exact:
        return f"{op}({a}, {b}) folded to {val!r}, exact result is {exact!r}"
    return None


def divmod_law(base, a, b):
    q = real_fold("div", base, a, b)
    r = real_fold("mod", base, a, b)
    if b == 0:
        return None
    if q[0] != "ok" or r[0] != "ok":
        return f"div/mod of literals ({a}, {b}) raised {q[1] if q[0] == 'err' else r[1]}"
    qv, rv = q[1], r[1]
    if type(qv) is not int or type(rv) is not int:
        return f"quotient/remainder are not integers: {qv!r}, {rv!r}"
    if a != qv * b + rv or not abs(rv) < abs(b):
        return f"a={a}, b={b}: q={qv}, r={rv} violate a = q*b + r, |r| < |b|"
    return None


M61 = 2**61 - 1
FAMILIES = [[1, 1 + M61, 1 + 2 * M61], [-1, -2], [2**53, 2**53 + 1], [10**20, 10**20 + 1], [0, M61], [7, 7 + M61, 7 - M61],
            [2**64, 2**64 + M61], [5, 5]]


def exact_of(op, a, b):
    if op == "div":
        return a // b
    if op == "mod":
        return a % b
    return EXACT[op](a, b)


def nested_expr(rng, depth):
    """literal-only expression tree with its exact value: ('lit', v) | (op, l, r)"""
    if depth == 0 or rng.random() < 0.3:
        return ("lit", R.big_int(rng) % (2**90) * rng.choice([1, -1]))
    return (rng.choice(["add", "sub", "mul"]), nested_expr(rng, depth - 1), nested_expr(rng, depth - 1))


def eval_exact(e):
    return e[1] if e[0] == "lit" else EXACT[e[0]](eval_exact(e[1]), eval_exact(e[2]))


def program_level(rng, n_programs):
    """Folded literals inside compiled programs: every literal-only sub-expression, combined with a non-literal
    operand so that it reaches the MIR, must resolve — through its LiteralReference and the MIR's literal table — to
    exactly the exact value and the literal type; the operation with the non-literal operand must not be folded.
    Each program holds several folded literals at once, including families of values that collide under
    Python's hash(), under float conversion, or differ only in type."""
    from nada_dsl import Party, Input, Output, Integer, UnsignedInteger, Boolean, SecretInteger, SecretUnsignedInteger, SecretBoolean
    from nada_dsl import Array, nada_fn
    from nada_dsl.compiler_frontend import nada_dsl_to_nada_mir
    LIT = {"int": Integer, "uint": UnsignedInteger, "bool": Boolean}
    problems, nlits = [], 0
    for k in range(n_programs):
        reset_globals()
        p = Party("p")
        host = {"Integer": SecretInteger(Input("xi", p)), "UnsignedInteger": SecretUnsignedInteger(Input("xu", p)),
                "Boolean": SecretBoolean(Input("xb", p))}
        items = []          # (description, literal wrapper, exact value, class name)

        def build(e, base):
            if e[0] == "lit":
                return LIT[base](e[1])
            return PYOP[e[0]](build(e[1], base), build(e[2], base))
        fam = FAMILIES[k % len(FAMILIES)]
        for v in fam:
            # the value as the *result* of a fold (v = (v - 3) + 3) and as a written literal
            items.append((f"Integer({v - 3}) + Integer(3)", Integer(v - 3) + Integer(3), v, "Integer"))
            if v >= 3:
                items.append((f"UnsignedInteger({v - 3}) + UnsignedInteger(3)", UnsignedInteger(v - 3) + UnsignedInteger(3), v, "UnsignedInteger"))
        if k % 3 == 0:
            # literals of several hundred / a thousand digits with long runs of zeros inside, written and folded, two of them
            # sharing their low digits (what the MIR's literal table says is read back digit by digit)
            w = rng.choice([10**600, 10**1100 + 10**20, 10**512, 10**1024 + 10**511])
            items.append((f"Integer(10**{len(str(w)) - 1} …) + Integer(7)", Integer(w) + Integer(7), w + 7, "Integer"))
            items.append((f"Integer({str(w)[:6]}… ({len(str(w))} digits))", Integer(w), w, "Integer"))
            items.append((f"UnsignedInteger(10**89) * UnsignedInteger(1)", UnsignedInteger(10**89) * UnsignedInteger(1), 10**89, "UnsignedInteger"))
            items.append((f"Integer(10**89 + 7)", Integer(10**89 + 7), 10**89 + 7, "Integer"))
        for _ in range(rng.randint(2, 6)):
            fam_k = rng.random()
            if fam_k < 0.5:
                e = nested_expr(rng, rng.choice([1, 2, 3]))
                base = "int"
                if eval_exact(e) >= 0 and rng.random() < 0.3 and all_nonneg(e):
                    base = "uint"
                items.append((show_expr(e, base), build(e, base), eval_exact(e), {"int": "Integer", "uint": "UnsignedInteger"}[base]))
            elif fam_k < 0.8:
                op = rng.choice(["div", "mod", "shl", "shr", "pow"])
                a = R.big_int(rng)
                b = rng.choice([1, 2, 3, 7, 64]) if op in ("shl", "shr", "pow") else (R.big_int(rng) or 3)
                if op == "pow":
                    a = a % 2**40
                try:
                    lit = PYOP[op](Integer(a), UnsignedInteger(b) if op in ("shl", "shr") else Integer(b))
                except Exception:  # pylint: disable=broad-except
                    continue
                items.append((f"Integer({a}) {op} {b}", lit, exact_of(op, a, b), "Integer"))
            else:
                op = rng.choice(REL)
                a, b = R.big_int(rng), R.big_int(rng)
                items.append((f"Integer({a}) {op} Integer({b})", PYOP[op](Integer(a), Integer(b)), bool(EXACT[op](a, b)), "Boolean"))
        outs = []
        for i, (desc, lit, val, cls) in enumerate(items):
            if type(lit).__name__ != cls:
                problems.append({"expr": desc, "why": f"folded to a {type(lit).__name__}, expected the literal type {cls}"})
                continue
            r = (host[cls] ^ lit) if cls == "Boolean" else (host[cls] + lit)
            outs.append((i, Output(r, f"o{i}", p)))
        # one more folded literal, written inside a function body and reachable only through it
        fa, fb = R.big_int(rng) % 2**70, rng.choice([2, 3, 5])
        fval = fa * fb + 1

        def scale(x: SecretInteger) -> SecretInteger:
            return x * (Integer(fa) * Integer(fb) + Integer(1))
        arr = Array(SecretInteger(Input("arr", p)), size=3)
        mapped = arr.map(nada_fn(scale))
        mir = nada_dsl_to_nada_mir([o for _, o in outs] + [Output(mapped, "mapped", p)])
        lits = {}
        for l in mir["literals"]:
            lits.setdefault(l["name"], []).append(l)
        nlits += 1
        found = False
        for f in mir["functions"]:
            for op in f["operations"].values():
                rname, rbody = next(iter(op.items()))
                if rname == "LiteralReference":
                    found = True
                    es = lits.get(rbody["refers_to"], [])
                    if len(es) != 1 or es[0]["value"] != str(fval) or es[0]["type"] != "Integer":
                        problems.append({"expr": f"x * (Integer({fa}) * Integer({fb}) + Integer(1)) inside a function body",
                                         "why": f"the folded literal of the function body resolves to {es} in the MIR literal table; the exact "
                                                f"result is {fval} of type Integer"})
        if not found:
            problems.append({"expr": "literal-only sub-expression inside a function body", "why": "no LiteralReference in the function's table"})
        def check(mir, outs, items, fam, tag=""):
            n = 0
            lits = {}
            for l in mir["literals"]:
                lits.setdefault(l["name"], []).append(l)
            for (i, _), mo in zip(outs, mir["outputs"]):
                desc, lit, val, cls = items[i]
                desc = tag + desc
                n += 1
                op = mir["operations"][mo["operation_id"]]
                name, body = next(iter(op.items()))
                want_op = "BooleanXor" if cls == "Boolean" else "Addition"
                if name != want_op:
                    problems.append({"expr": desc, "why": f"an operation with a non-literal operand was emitted as {name}, expected {want_op} (never folded)"})
                    continue
                ref = mir["operations"][body["right"]]
                rname, rbody = next(iter(ref.items()))
                if rname != "LiteralReference":
                    problems.append({"expr": desc, "why": f"the literal-only sub-expression was emitted as {rname}, not as one literal"})
                    continue
                entries = lits.get(rbody["refers_to"], [])
                if len(entries) != 1:
                    problems.append({"expr": desc, "why": f"literal reference {rbody['refers_to']} resolves to {len(entries)} entries"})
                    continue
                e = entries[0]
                if e["value"] != str(val) or e["type"] != cls or rbody["type"] != cls:
                    problems.append({"expr": desc, "family": [str(x) for x in fam],
                                     "why": f"in the compiled program the folded literal resolves to value {e['value']} of type {e['type']}; "
                                            f"the exact result is {val} of type {cls}"})
            return n
        nlits += check(mir, outs, items, fam)
        # a second compilation in the same process: folded literals that survive the first one (traced before it) next to
        # literals folded afterwards — each must still resolve to its own exact value
        keep = [it for it in outs if items[it[0]][3] == "Integer"][:3]
        items2 = [items[i] for i, _ in keep]
        for j in range(rng.randint(1, 3)):
            a2, b2 = R.big_int(rng) % 2**66, rng.choice([1, 2, 5, 7])
            items2.append((f"Integer({a2}) * Integer({b2}) + Integer({j})", Integer(a2) * Integer(b2) + Integer(j), a2 * b2 + j, "Integer"))
        order = list(range(len(items2)))
        rng.shuffle(order)
        outs2 = [(i, Output(host["Integer"] + items2[i][1], f"s{i}", p)) for i in order]
        try:
            mir2 = nada_dsl_to_nada_mir([o for _, o in outs2])
        except Exception as exc:  # pylint: disable=broad-except
            problems.append({"expr": "second compilation in the process", "why": f"{type(exc).__name__}: {exc}"[:200]})
        else:
            nlits += check(mir2, outs2, items2, fam, tag="(second compilation in one process) ")
    reset_globals()
    return problems, nlits


def history_folds(rng, n):
    """Folds in one process without any reset in between: the same operator on the same two values as `Integer` and as
    `UnsignedInteger` (either order), and augmented assignments (`acc += lit`, `-=`, `*=`) on a literal that has another name
    or is already an operand of an earlier operation.  Every fold must give the exact value in its own literal class, and a
    literal that was folded or written earlier keeps its value — in the wrapper, in its stored record and in the MIR."""
    import operator
    from nada_dsl import Party, Input, Output, Integer, UnsignedInteger, SecretInteger, ast_util
    from nada_dsl.compiler_frontend import nada_dsl_to_nada_mir
    problems = []
    reset_globals()
    kept = []           # (description, literal, exact value, class name)
    ops = ["add", "sub", "mul", "div", "mod", "pow", "lt", "ge", "eq", "ne", "shl", "shr"]
    for k in range(n):
        op = ops[k % len(ops)]
        a, b = rng.choice([6, 9, 12, 2**64 + 5, 10**30]), rng.choice([2, 3, 7])
        if op == "sub" and a < b:
            a, b = b, a
        order = [("Integer", Integer), ("UnsignedInteger", UnsignedInteger)]
        if rng.random() < 0.5:
            order.reverse()
        for cname, cls in order:
            try:
                r = PYOP[op](cls(a), UnsignedInteger(b) if op in ("shl", "shr") else cls(b))
            except Exception as exc:  # pylint: disable=broad-except
                problems.append({"expr": f"{cname}({a}) {op} {cname}({b})", "why": f"raised {type(exc).__name__} (second use of these values in the process)"})
                continue
            want_cls = "Boolean" if op in REL else cname
            want = exact_of(op, a, b) if op in ("div", "mod", "shl", "shr", "pow") else EXACT[op](a, b)
            if type(r).__name__ != want_cls or r.value != want or isinstance(r.value, bool) != (want_cls == "Boolean"):
                problems.append({"expr": f"{cname}({a}) {op} {cname}({b}), after the same operator on the same values in the other integer class",
                                 "why": f"folded to {type(r).__name__}({r.value}); the exact result is {want_cls}({want})"})
            kept.append((f"{cname}({a}) {op} {cname}({b})", r, want, want_cls))
    # augmented assignment on a literal that has another name
    for k in range(max(4, n // 4)):
        cname, cls = [("Integer", Integer), ("UnsignedInteger", UnsignedInteger)][k % 2]
        v, c = rng.choice([5, 2**64, 10**25]), rng.choice([1, 3, 7])
        sym, f, ex = [("+=", operator.iadd, v + c), ("*=", operator.imul, v * c), ("-=", operator.isub, v - c)][k % 3]
        base = cls(v)
        acc = base
        acc = f(acc, cls(c))
        if type(acc).__name__ != cname or acc.value != ex:
            problems.append({"expr": f"acc = {cname}({v}); acc {sym} {cname}({c})", "why": f"acc is {type(acc).__name__}({acc.value}); the exact result is {ex}"})
        again = base * cls(3)
        if base.value != v or again.value != v * 3:
            problems.append({"expr": f"base = {cname}({v}); acc = base; acc {sym} {cname}({c}); base * {cname}(3)",
                             "why": f"folded to {again.value}; the exact result is {v * 3} (base now holds {base.value})"})
    # a folded literal that is already an operand, then updated in place under its name
    p = Party("p")
    x = SecretInteger(Input("hx", p))
    t = Integer(10) - Integer(3)
    y = x * t
    t -= Integer(7)
    t2 = Integer(4) * Integer(5)
    z = x + t2
    t2 += Integer(1)
    try:
        mir = nada_dsl_to_nada_mir([Output(y, "y", p), Output(z, "z", p)])
        lits = {l["name"]: l for l in mir["literals"]}
        for out, want, desc in ((mir["outputs"][0], "7", "t = Integer(10) - Integer(3); y = x * t; t -= Integer(7)"),
                                (mir["outputs"][1], "20", "t = Integer(4) * Integer(5); z = x + t; t += Integer(1)")):
            body = next(iter(mir["operations"][out["operation_id"]].values()))
            ref = next(iter(mir["operations"][body["right"]].values()))
            got = lits.get(ref.get("refers_to"), {}).get("value")
            if got != want:
                problems.append({"expr": desc, "why": f"the operation traced before the update refers to the literal {got}; the program wrote {want}"})
    except Exception as exc:  # pylint: disable=broad-except
        problems.append({"expr": "y = x * t; t -= Integer(7)", "why": f"compilation raised {type(exc).__name__}: {exc}"[:200]})
    # literals folded earlier in this process still hold what they were folded to
    for desc, lit, want, cname in kept:
        rec = ast_util.AST_OPERATIONS.get(lit.child.id)
        if lit.value != want or type(lit).__name__ != cname or str(getattr(rec, "value", None)) != str(want):
            problems.append({"expr": desc, "why": f"folded to {cname}({want}) earlier in the process, now holds {type(lit).__name__}({lit.value}) "
                                                  f"(stored record: {getattr(rec, 'value', None)})"})
            break
    reset_globals()
    return problems, len(kept)


def all_nonneg(e):
    return e[1] >= 0 if e[0] == "lit" else (e[0] != "sub" and all_nonneg(e[1]) and all_nonneg(e[2]))


def show_expr(e, base):
    c = {"int": "Integer", "uint": "UnsignedInteger"}[base]
    return f"{c}({e[1]})" if e[0] == "lit" else f"({show_expr(e[1], base)} {e[0]} {show_expr(e[2], base)})"


def run(res, tier):
    rng = R.make("C06")
    n = 400 if tier == "quick" else 20000
    cases = gen_cases(rng, n)
    reqs = [{"k": "fold", "op": op, "base": base, "a": enc(a), "b": enc(b)} for op, base, a, b in cases]
    answers = core.driver(reqs)
    dist = {}
    nontrivial = set()
    diffs = []
    gaps = 0
    for (op, base, a, b), ans in zip(cases, answers):
        real = real_fold(op, base, a, b)
        dist[op] = dist.get(op, 0) + 1
        bad = oracle(op, base, a, b, real)
        if bad is None and op in ("div", "mod"):
            bad = divmod_law(base, a, b)
        if bad:
            res.violation({"property": "C06", "kind": "fold", "op": op, "base": base, "a": enc(a), "b": enc(b),
                           "observed": real, "why": bad}, f"fold {op}[{base}]({a}, {b}): {bad}"[:300])
            continue
        # K4: the Python-semantics model vs CPython
        if "err" in ans and ans["err"] == "modelGap":
            gaps += 1
            continue
        if real[0] == "ok":
            model = ans.get("ok")
            same = model == enc(real[1])
        else:
            same = ans.get("err") == real[1]
        if not same:
            diffs.append({"op": op, "base": base, "a": enc(a), "b": enc(b), "model": ans, "real": real[:2]})
        if real[0] == "ok" and (abs(a) > 20 or abs(b) > 20 if not isinstance(a, bool) else True):
            nontrivial.add((op, base, a, b))
    if diffs:
        res.broken.append({"decl": "K4 (Py/Int.lean vs CPython on foldExpr)", "msg": json.dumps(diffs[:3])[:600]})
    # the table clause of the property on the real classes (Python twin of `C06.foldedIffLiteral`; it is also what turns
    # a broken `table_folds_exactly_literals` into a replayable cell): folded <=> every operand is a literal
    from ..extract import t1_scalar
    ncells = 0
    for op_, stys, results in t1_scalar.rows():
        for prov, r in zip(t1_scalar.PROVENANCES, results):
            if r is None or r[0] != "ok":
                continue
            ncells += 1
            _, sty, folded, name, _ = r
            if name == "alias":
                continue
            allconst = all(s[0] == "const" for s in stys)
            if folded != allconst or (folded and not (name == "Literal" and sty[0] == "const")):
                names = [t1_scalar.CLASSES[s].__name__ for s in stys]
                res.violation({"property": "C06", "kind": "table-cell", "op": op_, "args": [list(s) for s in stys], "provenance": prov,
                               "observed": list(map(str, r))},
                              f"{op_}({', '.join(names)}) with operands built as '{prov}': "
                              + ("folded to a literal although an operand is not a literal" if folded else "not folded although every operand is a literal")
                              + f" (result {t1_scalar.CLASSES[sty].__name__}, recorded as {name})")
    hproblems, nhist = history_folds(R.make("C06-history"), 24 if tier == "quick" else 240)
    try:
        problems, nlits = program_level(R.make("C06-programs"), 24 if tier == "quick" else 600)
    except Exception as exc:  # pylint: disable=broad-except
        # the harness empties the trace between two programs; something of an earlier program was still in use
        problems, nlits = [], 0
        reset_globals()
        res.broken.append({"decl": "program-level fold run (the trace is emptied between programs, as the test-suite fixture does)",
                           "msg": f"{type(exc).__name__}: {exc}"[:300]})
    for pr in (problems + hproblems)[:8]:
        res.violation({"property": "C06", "kind": "fold-in-program", **pr}, f"{pr['expr'][:120]}: {pr['why']}"[:400])
    res.coverage.update({
        "evaluations": len(cases),
        "distinct_nontrivial": len(nontrivial),
        "rule": "operand pairs from magnitude classes (small, 2^31, 2^53±1, 2^64±1, 2^128, 2^256, 10^400, random bit strings) "
                "x all foldable operators x {Integer, UnsignedInteger}; all 4 boolean pairs x {&,|,^,==,!=}, ~; "
                "non-trivial = distinct cases that fold successfully with an operand of magnitude > 20 (or booleans)",
        "operator_distribution": dist,
        "model_gap_skipped": gaps,
        "k4_disagreements": len(diffs),
        "folded_literals_checked_inside_compiled_programs": nlits,
        "table_cells_checked_folded_iff_literal": ncells,
        "samples": [{"op": c[0], "base": c[1], "a": enc(c[2]), "b": enc(c[3])} for c in cases[16:40:4]],
    })
    res.assumptions += [
        "Py/Int.lean models CPython int/bool arithmetic (validated by K4 on this run's cases); float results of "
        "negative exponents are outside the property and not predicted",
        "T2 is syntactic: expressions outside its grammar become `untranslated` and break the exactness theorems",
    ]


def replay(obj):
    if obj.get("kind") == "table-cell":
        from . import c02
        return c02.replay_fold_cell(obj)
    if obj.get("kind") == "fold-in-program":
        problems, _ = program_level(R.make("C06-programs"), 24)
        problems += history_folds(R.make("C06-history"), 24)[0]
        print(json.dumps(problems[:3], default=str)[:1500])
        if problems:
            print("VIOLATION property=C06 replay=(replayed)")
        return 1 if problems else 0
    op, base = obj["op"], obj["base"]
    a = obj["a"] if isinstance(obj["a"], bool) else int(obj["a"])
    b = obj["b"] if isinstance(obj["b"], bool) else int(obj["b"])
    real = real_fold(op, base, a, b)
    bad = oracle(op, base, a, b, real)
    if bad is None and op in ("div", "mod"):
        bad = divmod_law(base, a, b)
    print(json.dumps({"op": op, "base": base, "a": str(a), "b": str(b), "real": real, "verdict": bad or "ok"}, default=str)[:2000])
    if bad:
        print("VIOLATION property=C06 replay=(replayed)")
    return 1 if bad else 0
