"""C01 — emitted MIR is referentially closed, correctly scoped and acyclic."""
from ..oracle import graph as G
from . import graphcommon as gc

MODULE = "NadaVerif.Props.C01"
TRANSLATORS = None
THEOREMS = [f"NadaVerif.C01.{n}" for n in (
    "schema_refs_subset_children", "astSchema_eq_model", "compile_tables_closed", "compile_outputs_resolve",
    "compile_entries_from_store", "compile_acyclic", "trace_compile_acyclic", "history_compile_acyclic", "compile_fn_refs_resolve", "compile_input_literal_refs_resolve",
    "trace_compile_no_missing", "history_compile_no_missing", "trace_store_closed")] + \
    ["NadaVerif.Lemmas.exec_spec", "NadaVerif.Lemmas.trace_storeWF", "NadaVerif.Lemmas.exec_sto", "NadaVerif.Lemmas.trace_stored",
     "NadaVerif.Lemmas.compile_nk"]


def oracle(mir, rec):
    return G.c01(mir)


def project(mir):
    def op(o):
        n, b = G.body(o)
        return {n: {k: v for k, v in b.items() if k not in ("type", "return_type", "to")}} if n else {}
    return {
        "operations": [[k, op(o)] for k, o in mir["operations"]],
        "functions": [{"id": f["id"], "ret": f["return_operation_id"], "args": [a["name"] for a in f["args"]],
                       "operations": [[k, op(o)] for k, o in f["operations"]]} for f in mir["functions"]],
        "inputs": [i["name"] for i in mir["inputs"]], "literals": [l["name"] for l in mir["literals"]],
        "outputs": [o["operation_id"] for o in mir["outputs"]],
    }


def classify(kind, rec, mir):
    if kind == "foreign-argref" and gc.uses_foreign_param(rec["events"]):
        return "NoForeignParam"
    return None


def run(res, tier):
    gc.run_graph(res, tier, "C01", oracle, project, classify, spec_key=("closed", "acyclic", "scoped"))


def replay(obj):
    return gc.replay_graph(obj, "C01", oracle)
