"""C09 — MIR tables hold exactly what the outputs need, each entry once and consistent."""
from ..oracle import graph as G
from . import graphcommon as gc

MODULE = "NadaVerif.Props.C09"
TRANSLATORS = None
THEOREMS = [f"NadaVerif.C09.{n}" for n in ("no_dead_ops", "nothing_missing_nothing_twice", "entries_are_store_records", "functions_once_and_present", "inputs_literals_once_and_present")] + ["NadaVerif.C09.traced_nothing_missing"]


def oracle(mir, rec):
    return G.c09(mir, rec["facts"]["lit_written"])


def project(mir):
    return {
        "operations": [k for k, _ in mir["operations"]],
        "functions": [[f["id"], [k for k, _ in f["operations"]]] for f in mir["functions"]],
        "inputs": [i["name"] for i in mir["inputs"]],
        "literals": [[l["name"], l["value"], l["type"]] for l in mir["literals"]],
        "parties": [p["name"] for p in mir["parties"]],
    }


def run(res, tier):
    gc.run_graph(res, tier, "C09", oracle, project, None, spec_key=("exact",))


def replay(obj):
    return gc.replay_graph(obj, "C09", oracle)
