"""C02 — scalar operators accept exactly the allowed type pairs and yield the ruled type."""
import json
from .. import core
from ..extract import t1_scalar
from ..oracle import scalar_rules

MODULE = "NadaVerif.Props.C02"
TRANSLATORS = None
THEOREMS = [
    "NadaVerif.C02.scalarTable_ok",
    "NadaVerif.C02.scalarTable_complete",
    "NadaVerif.C02.typeBin_result",
    "NadaVerif.C02.typeBin_reject_mixed",
    "NadaVerif.C02.ifElse_rules",
]

NAME2STY = {c.__name__: k for k, c in t1_scalar.CLASSES.items()}


def _cells_from_real():
    rows = t1_scalar.rows()
    cells = []
    for op, stys, results in rows:
        distinct = []
        for r in results:
            if r[0] == "valueerror":
                continue
            r = t1_scalar.norm(r)
            if r not in distinct:
                distinct.append(r)
        cells.append((op, stys, distinct, results))
    return cells


def cell_outcomes(op, stys):
    """the distinct outcomes of one cell over all provenances, in the state this process is in"""
    from ..real.env import reset_globals
    fns = dict(t1_scalar.BINOPS + t1_scalar.METHODS2 + t1_scalar.UNARY)
    fns["ifElse"] = lambda x, y, z: x.if_else(y, z)
    distinct = []
    for prov in t1_scalar.PROVENANCES:
        reset_globals()
        from nada_dsl import Party
        party = Party("p")
        if op == "random":
            r = t1_scalar.outcome(lambda: t1_scalar.CLASSES[stys[0]].random())
        elif prov == "fnparam":
            r = t1_scalar.with_params(stys, lambda *ps: t1_scalar.outcome(lambda: fns[op](*ps)))
        else:
            ops = t1_scalar.build_all(stys, prov, party)
            r = t1_scalar.outcome(lambda: fns[op](*ops))
        if r is None or r[0] == "valueerror":
            continue
        r = json.loads(json.dumps(t1_scalar.norm(r), default=str))
        if r not in distinct:
            distinct.append(r)
    reset_globals()
    return distinct


def history_dependence(res, keys):
    """The table extracted for the Lean side and the one computed here disagree on these cells although both were read off
    the same classes: the outcome of a cell then depends on what was evaluated before it.  Each cell is evaluated alone in a
    new interpreter and again in this process (after the whole table): a difference is a failing input."""
    import os
    import subprocess
    import sys
    found = 0
    for op, names in sorted(keys)[:12]:
        stys = [NAME2STY[n] for n in names]
        code = f"import json; from nv.props import c02; print(json.dumps(c02.cell_outcomes({op!r}, {stys!r})))"
        env = dict(os.environ, PYTHONPATH=os.pathsep.join([os.path.join(core.VERIF, "harness"), core.REPO]), PYTHONDONTWRITEBYTECODE="1")
        p = subprocess.run([sys.executable, "-c", code], env=env, capture_output=True, text=True, timeout=300)
        try:
            alone = json.loads(p.stdout.strip().split("\n")[-1])
        except ValueError:
            continue
        here = cell_outcomes(op, stys)
        if alone != here:
            found += 1
            res.violation({"property": "C02", "kind": "history", "op": op, "args": [list(x) for x in stys], "arg_classes": list(names),
                           "alone": alone, "after_the_table": here},
                          f"{op}({', '.join(names)}): evaluated alone in a new interpreter the outcomes are {alone}, after the other cells of the "
                          f"table were evaluated in the same process they are {here}: the verdict depends on history, not on the operand types"[:500])
    return found


SUBCLASS_PROBE = """
import json
from nv.props import c02
from nv.extract import t1_scalar
cells = [("add", [("sec", "int"), ("sec", "int")]), ("sub", [("pub", "int"), ("sec", "int")]), ("mul", [("pub", "uint"), ("pub", "uint")]),
         ("lt", [("sec", "int"), ("pub", "int")]), ("eq", [("sec", "bool"), ("pub", "bool")]), ("ifElse", [("pub", "bool"), ("pub", "int"), ("sec", "int")]),
         ("shl", [("sec", "uint"), ("pub", "uint")]), ("div", [("sec", "uint"), ("sec", "uint")]), ("reveal", [("sec", "bool")]), ("invert", [("pub", "bool")])]
known = {name for name, _ in t1_scalar.BINOPS + t1_scalar.METHODS2 + t1_scalar.UNARY} | {"ifElse"}
cells = [c for c in cells if c[0] in known]
before = [c02.cell_outcomes(op, stys) for op, stys in cells]
# a program (or a helper module) derives its own classes from the scalar types — as a namespace for named constructors, never instantiated
made = []
for sty, cls in t1_scalar.CLASSES.items():
    made.append(type("My" + cls.__name__, (cls,), {"__doc__": "a class of the user's program"}))
after = [c02.cell_outcomes(op, stys) for op, stys in cells]
print(json.dumps([[op, [list(s) for s in stys], b, a] for (op, stys), b, a in zip(cells, before, after) if a != b]))
"""


def subclass_probe(res):
    """A test, not part of the table: a user's program may define classes derived from the scalar types.  Their mere existence must not
    change what the operators return for the nine types themselves — the outcome depends on the operand types only."""
    import os
    import subprocess
    import sys
    env = dict(os.environ, PYTHONPATH=os.pathsep.join([os.path.join(core.VERIF, "harness"), core.REPO]), PYTHONDONTWRITEBYTECODE="1")
    p = subprocess.run([sys.executable, "-c", SUBCLASS_PROBE], env=env, capture_output=True, text=True, timeout=600)
    try:
        changed = json.loads(p.stdout.strip().split("\n")[-1])
    except (ValueError, IndexError):
        res.broken.append({"decl": "C02 subclass probe", "msg": (p.stderr or p.stdout)[-300:]})
        return 0
    for op, stys, before, after in changed[:3]:
        names = [t1_scalar.CLASSES[tuple(s_)].__name__ for s_ in stys]
        res.violation({"property": "C02", "kind": "subclass", "op": op, "args": stys, "arg_classes": names, "before": before, "after": after},
                      f"{op}({', '.join(names)}): outcomes {before}; after the program defined classes derived from the scalar types (never "
                      f"instantiated): {after} — the result type no longer depends on the operand types only"[:500])
    return len(changed)


def run(res, tier):
    subclass_probe(res)
    # 1. the Lean definition evaluated on the regenerated table (names the failing cells)
    ans = core.driver([{"k": "c02cells"}])[0]
    lean_fail = {(c["op"], tuple(c["args"])) for c in ans["cellOK"]}
    # 2. the Python mirror on the real classes (also the replay oracle)
    cells = _cells_from_real()
    accepted = 0
    py_fail = {}
    for op, stys, distinct, raw in cells:
        ok, why = scalar_rules.cell_ok(op, stys, distinct)
        if distinct and distinct[0][0] == "ok":
            accepted += 1
        if not ok:
            key = (op, tuple(t1_scalar.CLASSES[s].__name__ for s in stys))
            py_fail[key] = (op, stys, distinct, raw, why)
    for key, (op, stys, distinct, raw, why) in sorted(py_fail.items()):
        res.violation(
            {"property": "C02", "kind": "cell", "op": op, "args": [list(s) for s in stys],
             "arg_classes": list(key[1]), "observed_outcomes_per_provenance": raw, "why": why,
             "replay": "./check C02 --replay <this file>"},
            f"{op}({', '.join(key[1])}): {why}")
    if lean_fail != set(py_fail):
        # the two evaluations of the property disagree.  Both read the same classes, in different processes and orders: look
        # for a cell whose outcome depends on what ran before it; if there is none the obligation is reported as broken
        diff = lean_fail ^ set(py_fail)
        if not history_dependence(res, diff):
            res.broken.append({"decl": "T1 table (Lean cellOK) vs Python mirror of the rules", "msg": f"disagree on {sorted(diff)[:5]}"})
    res.coverage.update({
        "evaluations": len(cells) * len(t1_scalar.PROVENANCES),
        "distinct_nontrivial": accepted,
        "rule": "every operator/method x every ordered tuple of the 9 scalar classes x 5 operand provenances "
                "(literal/Input, operation result, NTuple element, Object field, nada_fn parameter); "
                "non-trivial = accepted cells (a typed result exists); the table is complete (scalarTable_complete)",
        "exhaustive": True,
        "cells": len(cells),
        "samples": [{"op": c[0], "args": [list(s) for s in c[1]], "outcomes": c[2]} for c in cells[3:2295:311]],
    })
    res.assumptions += [
        "operand provenance beyond the five enumerated classes is covered by the layer-B correspondence (K1), not by this table",
        "T1 drives the real classes through Python operators; CPython's operator dispatch is trusted",
    ]


def replay(obj):
    from ..real.env import reset_globals
    op, stys = obj["op"], [tuple(a) for a in obj["args"]]
    if obj.get("kind") == "subclass":
        class _R2:
            broken = []
            n = 0

            def violation(self, o, text):
                self.n += 1
                print(text)
        r2 = _R2()
        subclass_probe(r2)
        if r2.n:
            print("VIOLATION property=C02 replay=(replayed)")
        return 1 if r2.n else 0
    if obj.get("kind") == "history":
        class _R:
            n = 0

            def violation(self, o, text):
                self.n += 1
                print(text)
        _cells_from_real()
        r = _R()
        history_dependence(r, {(op, tuple(obj["arg_classes"]))})
        if r.n:
            print("VIOLATION property=C02 replay=(replayed)")
        return 1 if r.n else 0
    fns = dict(t1_scalar.BINOPS + t1_scalar.METHODS2 + t1_scalar.UNARY)
    fns["ifElse"] = lambda x, y, z: x.if_else(y, z)
    results = []
    for prov in t1_scalar.PROVENANCES:
        reset_globals()
        from nada_dsl import Party
        party = Party("p")
        if op == "random":
            r = t1_scalar.outcome(lambda: t1_scalar.CLASSES[stys[0]].random())
        elif prov == "fnparam":
            r = t1_scalar.with_params(stys, lambda *ps: t1_scalar.outcome(lambda: fns[op](*ps)))
        else:
            ops = t1_scalar.build_all(stys, prov, party)
            r = t1_scalar.outcome(lambda: fns[op](*ops))
        results.append(r)
    distinct = []
    for r in results:
        if r is None or r[0] == "valueerror":
            continue
        r = t1_scalar.norm(r)
        if r not in distinct:
            distinct.append(r)
    ok, why = scalar_rules.cell_ok(op, stys, distinct)
    print(json.dumps({"op": op, "args": stys, "outcomes": results, "ok": ok, "why": None if ok else why}, default=str))
    if not ok:
        print(f"VIOLATION property=C02 replay=(replayed) {why}")
    return 0 if ok else 1


def replay_fold_cell(obj):
    """C06's table clause on one cell: folded <=> every operand is a literal (all provenances)"""
    from ..real.env import reset_globals
    op, stys = obj["op"], [tuple(a) for a in obj["args"]]
    fns = dict(t1_scalar.BINOPS + t1_scalar.METHODS2 + t1_scalar.UNARY)
    fns["ifElse"] = lambda x, y, z: x.if_else(y, z)
    bad = []
    for prov in t1_scalar.PROVENANCES:
        reset_globals()
        from nada_dsl import Party
        party = Party("p")
        if op == "random":
            continue
        if prov == "fnparam":
            r = t1_scalar.with_params(stys, lambda *ps: t1_scalar.outcome(lambda: fns[op](*ps)))
        else:
            ops = t1_scalar.build_all(stys, prov, party)
            r = t1_scalar.outcome(lambda: fns[op](*ops))
        if r is None or r[0] != "ok" or r[3] == "alias":
            continue
        allconst = all(s[0] == "const" for s in stys)
        if r[2] != allconst or (r[2] and not (r[3] == "Literal" and r[1][0] == "const")):
            bad.append((prov, list(map(str, r))))
    print(json.dumps({"op": op, "args": stys, "bad": bad}, default=str))
    if bad:
        print("VIOLATION property=C06 replay=(replayed)")
    return 1 if bad else 0
