"""Regenerate `lean/NadaVerif/Generated/*.lean` from /repo's working tree (write only if changed)."""
import importlib
import os
from .. import core

TABLE = {
    "T1": ("t1_scalar", "ScalarTable.lean"),
    "T2": ("t2_fold", "FoldOps.lean"),
    "T6": ("t6_schema", "AstSchema.lean"),
    "T3": ("t3_classes", "ClassTable.lean"),
    "T4": ("t4_frames", "FrameTable.lean"),
    "T5": ("t5_audit", "AuditTables.lean"),
}


def regenerate(which=None):
    changed = []
    for key, (modname, fname) in TABLE.items():
        if which is not None and key not in which:
            continue
        mod = importlib.import_module(f"nv.extract.{modname}")
        try:
            text = mod.emit()
        except Exception as exc:  # pylint: disable=broad-except
            raise core.Infra(f"translator {key} failed: {type(exc).__name__}: {exc}") from exc
        if isinstance(text, tuple):
            text = text[0]
        if core.write_if_changed(os.path.join(core.GEN, fname), text):
            changed.append(key)
    return changed
