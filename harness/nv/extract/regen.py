"""Regenerate `lean/NadaVerif/Generated/*.lean` from /repo's working tree (write only if changed)."""
import importlib
import os
from .. import core

TABLE = {
    "T1": ("t1_scalar", "ScalarTable.lean"),
    "T2": ("t2_fold", "FoldOps.lean"),
    "T6": ("t6_schema", "AstSchema.lean"),
    "T3": ("t3_classes", "ClassTable.lean"),
    "T4": ("t4_frames", "FrameTable.lean"),
    "T5": ("t5_audit", "AuditTables.lean"),
}


FAILED = []      # translators that could not read the code as it is now: (key, message); their generated file is left as it was


def regenerate(which=None):
    changed = []
    del FAILED[:]
    for key, (modname, fname) in TABLE.items():
        if which is not None and key not in which:
            continue
        mod = importlib.import_module(f"nv.extract.{modname}")
        try:
            text = mod.emit()
        except Exception as exc:  # pylint: disable=broad-except
            # the code no longer has the shape the translator reads: the tie is broken, which is a finding about the code under
            # check (reported as a broken obligation; the rest of the check looks for a failing input), not a fault of the machinery
            if not os.path.exists(os.path.join(core.GEN, fname)):
                raise core.Infra(f"translator {key} failed and no earlier table exists: {type(exc).__name__}: {exc}") from exc
            FAILED.append((key, f"{type(exc).__name__}: {exc}"[:300]))
            continue
        if isinstance(text, tuple):
            text = text[0]
        if core.write_if_changed(os.path.join(core.GEN, fname), text):
            changed.append(key)
    return changed
