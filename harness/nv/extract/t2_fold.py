"""T2 — syntactic translation of the literal-folding code of scalar_types.py into PyExpr terms.

For every folding dunder the translator finds (a) the lambda passed to the typing helper,
(b) the expression the helper returns in the `Mode.CONSTANT` case, (c) the value normalisation of
the literal constructor that receives it, and composes them into one term over `lhs`/`rhs`.
Anything outside the small grammar becomes `PyExpr.untranslated "<source>"`.
Output: Lean source of `NadaVerif/Generated/FoldOps.lean`.
"""
import ast
import os
from ..core import REPO

SRC = os.path.join(REPO, "nada_dsl", "nada_types", "scalar_types.py")

DUNDERS = {
    "__add__": "add", "__sub__": "sub", "__mul__": "mul", "__truediv__": "div", "__mod__": "mod",
    "__pow__": "pow", "__lshift__": "shl", "__rshift__": "shr", "__lt__": "lt", "__gt__": "gt",
    "__le__": "le", "__ge__": "ge", "__eq__": "eq", "__ne__": "ne", "__and__": "and", "__or__": "or",
    "__xor__": "xor",
}
ORDER = ["add", "sub", "mul", "div", "mod", "pow", "shl", "shr", "lt", "gt", "le", "ge", "eq", "ne", "and", "or", "xor"]
BINOPS = {ast.Add: "add", ast.Sub: "sub", ast.Mult: "mul", ast.Div: "truediv", ast.FloorDiv: "floordiv",
          ast.Mod: "mod", ast.Pow: "pow", ast.LShift: "shl", ast.RShift: "shr", ast.BitAnd: "bitand",
          ast.BitOr: "bitor", ast.BitXor: "bitxor"}
CMPS = {ast.Lt: "lt", ast.Gt: "gt", ast.LtE: "le", ast.GtE: "ge", ast.Eq: "eq", ast.NotEq: "ne"}


class Untranslatable(Exception):
    pass


def lean_str(s):
    return '"' + s.replace("\\", "\\\\").replace('"', '\\"').replace("\n", "\\n") + '"'


def tr(e, env):
    """env: dict from ast.dump of a sub-expression (or a Name id) to a Lean term; 'f' -> lambda body."""
    key = ast.dump(e)
    if key in env:
        return env[key]
    if isinstance(e, ast.Name) and e.id in env:
        return env[e.id]
    if isinstance(e, ast.BinOp) and type(e.op) in BINOPS:
        return f"(.bin .{BINOPS[type(e.op)]} {tr(e.left, env)} {tr(e.right, env)})"
    if isinstance(e, ast.Compare) and len(e.ops) == 1 and type(e.ops[0]) in CMPS:
        return f"(.cmp .{CMPS[type(e.ops[0])]} {tr(e.left, env)} {tr(e.comparators[0], env)})"
    if isinstance(e, ast.UnaryOp) and isinstance(e.op, ast.Not):
        return f"(.not {tr(e.operand, env)})"
    if isinstance(e, ast.UnaryOp) and isinstance(e.op, ast.USub):
        return f"(.neg {tr(e.operand, env)})"
    if isinstance(e, ast.IfExp):
        return f"(.ite {tr(e.test, env)} {tr(e.body, env)} {tr(e.orelse, env)})"
    if isinstance(e, ast.Call) and isinstance(e.func, ast.Name) and e.func.id in ("bool", "int") \
            and len(e.args) == 1 and not e.keywords:
        return f"(.call{'Bool' if e.func.id == 'bool' else 'Int'} {tr(e.args[0], env)})"
    if isinstance(e, ast.Call) and isinstance(e.func, ast.Name) and e.func.id == "f" and "f" in env \
            and len(e.args) == 2 and not e.keywords:
        a0, a1 = tr(e.args[0], env), tr(e.args[1], env)
        if (a0, a1) != (".lhs", ".rhs"):
            raise Untranslatable(ast.unparse(e))
        return env["f"]
    raise Untranslatable(ast.unparse(e))


def attr(obj, name):
    return ast.dump(ast.Attribute(value=ast.Name(id=obj, ctx=ast.Load()), attr=name, ctx=ast.Load()))


def find_class(tree, name):
    for n in tree.body:
        if isinstance(n, ast.ClassDef) and n.name == name:
            return n
    return None


def find_func(body, name):
    for n in body:
        if isinstance(n, ast.FunctionDef) and n.name == name:
            return n
    return None


def constant_return(fn):
    """The expression returned when `mode == Mode.CONSTANT` in a helper / method body."""
    def is_const(e):
        return isinstance(e, ast.Attribute) and e.attr == "CONSTANT"
    for n in ast.walk(fn):
        if isinstance(n, ast.Match):
            for case in n.cases:
                p = case.pattern
                if isinstance(p, ast.MatchValue) and is_const(p.value):
                    for s in case.body:
                        if isinstance(s, ast.Return):
                            return s.value
        if isinstance(n, ast.If) and isinstance(n.test, ast.Compare) and len(n.test.ops) == 1 \
                and isinstance(n.test.ops[0], ast.Eq) and is_const(n.test.comparators[0]) \
                and isinstance(n.test.left, ast.Name) and n.test.left.id == "mode":
            for s in n.body:
                if isinstance(s, ast.Return):
                    return s.value
    return None


def ctor_norm(tree, clsname):
    """`value = int(value)` / `value = bool(value)` at the head of the literal constructor."""
    cls = find_class(tree, clsname)
    init = find_func(cls.body, "__init__") if cls else None
    if init is None:
        return None
    for s in init.body:
        if isinstance(s, ast.Assign) and len(s.targets) == 1 and isinstance(s.targets[0], ast.Name) \
                and s.targets[0].id == "value":
            return s.value
        break
    return None


def split_ctor(ret):
    """ret = CTOR(ARG) with CTOR one of new_scalar_type(mode, base_type) / new_scalar_type(mode,
    BaseType.BOOLEAN) / Boolean ; returns (kind, arg)."""
    if not isinstance(ret, ast.Call):
        raise Untranslatable(ast.unparse(ret))
    args = list(ret.args) + [k.value for k in ret.keywords if k.arg == "value"]
    if len(args) != 1:
        raise Untranslatable(ast.unparse(ret))
    fn = ret.func
    if isinstance(fn, ast.Name) and fn.id in ("Boolean", "Integer", "UnsignedInteger"):
        return {"Boolean": "bool", "Integer": "int", "UnsignedInteger": "uint"}[fn.id], args[0]
    if isinstance(fn, ast.Call) and isinstance(fn.func, ast.Name) and fn.func.id == "new_scalar_type" \
            and len(fn.args) == 2:
        b = fn.args[1]
        if isinstance(b, ast.Name) and b.id == "base_type":
            return "same", args[0]
        if isinstance(b, ast.Attribute) and b.attr in ("BOOLEAN", "INTEGER", "UNSIGNED_INTEGER"):
            return {"BOOLEAN": "bool", "INTEGER": "int", "UNSIGNED_INTEGER": "uint"}[b.attr], args[0]
    raise Untranslatable(ast.unparse(ret))


def extract():
    with open(SRC, encoding="utf-8") as f:
        tree = ast.parse(f.read())
    helpers = {n.name: n for n in tree.body if isinstance(n, ast.FunctionDef)}
    norms = {}
    for base, cls in (("int", "Integer"), ("uint", "UnsignedInteger"), ("bool", "Boolean")):
        e = ctor_norm(tree, cls)
        try:
            norms[base] = tr(e, {"value": "@"}) if e is not None else "@"
        except Untranslatable as u:
            norms[base] = f'(.untranslated {lean_str(str(u))})'
    ops = {}
    where = {}
    for clsname in ("ScalarType", "NumericType", "BooleanType"):
        cls = find_class(tree, clsname)
        if cls is None:
            continue
        for m in cls.body:
            if not isinstance(m, ast.FunctionDef) or m.name not in DUNDERS:
                continue
            op = DUNDERS[m.name]
            try:
                ret = next((s.value for s in m.body if isinstance(s, ast.Return)), None)
                lam = None
                if isinstance(ret, ast.Call) and isinstance(ret.func, ast.Name) and ret.func.id in helpers:
                    for a in ret.args:
                        if isinstance(a, ast.Lambda):
                            lam = a
                if lam is not None:
                    pn = [a.arg for a in lam.args.args]
                    body = tr(lam.body, {pn[0]: ".lhs", pn[1]: ".rhs"})
                    helper = helpers[ret.func.id]
                    cret = constant_return(helper)
                    kind, arg = split_ctor(cret)
                    inner = tr(arg, {"f": body, attr("left", "value"): ".lhs", attr("right", "value"): ".rhs"})
                    where[op] = f"{clsname}.{m.name} via {ret.func.id}"
                else:
                    cret = constant_return(m)
                    kind, arg = split_ctor(cret)
                    inner = tr(arg, {attr("self", "value"): ".lhs", attr("other", "value"): ".rhs"})
                    where[op] = f"{clsname}.{m.name}"
                ops[op] = (kind, inner)
            except (Untranslatable, TypeError, AttributeError, StopIteration, IndexError) as u:
                ops[op] = ("same", f'(.untranslated {lean_str(m.name + ": " + str(u))})')
    # Boolean.__invert__
    inv = "(.untranslated \"Boolean.__invert__ not found\")"
    cls = find_class(tree, "Boolean")
    m = find_func(cls.body, "__invert__") if cls else None
    if m is not None:
        try:
            ret = next(s.value for s in m.body if isinstance(s, ast.Return))
            kind, arg = split_ctor(ret)
            inner = tr(arg, {attr("self", "value"): ".lhs"})
            inv = norms.get(kind, "@").replace("@", inner)
        except (Untranslatable, StopIteration) as u:
            inv = f'(.untranslated {lean_str(str(u))})'
    return ops, norms, inv, where


def emit():
    ops, norms, inv, where = extract()
    L = [
        "/- GENERATED by harness/nv/extract/t2_fold.py from nada_dsl/nada_types/scalar_types.py — do not edit. -/",
        "import NadaVerif.Scalar",
        "import NadaVerif.Py.Int",
        "namespace NadaVerif.Generated",
        "open NadaVerif NadaVerif.Py",
        "",
        "/-- value normalisation of the literal constructors (`value = int(value)` …) applied to `e` -/",
        "def ctorNorm (b : Base) (e : PyExpr) : PyExpr :=",
        "  match b with",
    ]
    for base in ("int", "uint", "bool"):
        L.append(f"  | .{base} => " + norms[base].replace("@", "e"))
    L += ["", "/-- the value of the literal produced by folding `op` on two literals of base `b`:",
          "constructor normalisation ∘ helper's CONSTANT case ∘ lambda -/",
          "def foldExpr (op : BinOp) (b : Base) : PyExpr :=", "  match op with"]
    for op in ORDER:
        if op not in ops:
            L.append(f'  | .{op} => .untranslated "dunder for {op} not found"')
            continue
        kind, inner = ops[op]
        if kind == "same":
            L.append(f"  | .{op} => ctorNorm b {inner}   -- {where.get(op, '')}")
        else:
            L.append(f"  | .{op} => ctorNorm .{kind} {inner}   -- {where.get(op, '')}")
    L += ["", "/-- base type of the folded literal -/", "def foldBase (op : BinOp) (b : Base) : Base :=", "  match op with"]
    for op in ORDER:
        kind = ops.get(op, ("same", ""))[0]
        L.append(f"  | .{op} => " + ("b" if kind == "same" else f".{kind}"))
    L += ["", "/-- `~Boolean(v)` -/", f"def invertExpr : PyExpr := {inv}", "", "end NadaVerif.Generated", ""]
    return "\n".join(L)


if __name__ == "__main__":
    print(emit())
