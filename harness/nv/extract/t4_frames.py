"""T4 — the frame table: a catalogue program invokes every DSL entry point that records a source
reference, one per line of a generated user file; for every element the recorded reference is
compared with the user's file / line / line text.  A static scan lists every syntactic
`back_frame()` call site of the package and the dynamic run reports which ones were reached.
Output: Lean source of `NadaVerif/Generated/FrameTable.lean`."""
import ast
import importlib.util
import os
import shutil
import sys
import tempfile

from ..core import REPO
from ..real.env import reset_globals

CATALOGUE = '''from nada_dsl import *

def build():
    E = {}
    p = Party(name="P")
    E["Party"] = Party(name="Q")
    a = SecretInteger(Input(name="a", party=p))
    E["Input/SecretInteger"] = SecretInteger(Input(name="a2", party=p))
    E["Input/Array"] = Array(SecretInteger(Input(name="a3", party=p)), size=2)
    b = SecretInteger(Input(name="b", party=p))
    pu = PublicUnsignedInteger(Input(name="pu", party=p))
    su = SecretUnsignedInteger(Input(name="su", party=p))
    pa = PublicInteger(Input(name="pa", party=p))
    pb = PublicInteger(Input(name="pb", party=p))
    sb = SecretBoolean(Input(name="sb", party=p))
    sc = SecretBoolean(Input(name="sc", party=p))
    pc = PublicBoolean(Input(name="pc", party=p))
    E["__add__"] = a + b
    E["__sub__"] = a - b
    E["__mul__"] = a * b
    E["__truediv__"] = a / b
    E["__mod__"] = a % b
    E["__pow__"] = pa ** pb
    E["__lshift__"] = su << pu
    E["__rshift__"] = su >> pu
    E["__lt__"] = a < b
    E["__gt__"] = a > b
    E["__le__"] = a <= b
    E["__ge__"] = a >= b
    E["__eq__"] = a == b
    E["__eq__/public"] = pa == pb
    E["__and__/public"] = pc & pc
    E["trunc_pr/literal"] = a.trunc_pr(UnsignedInteger(2))
    E["trunc_pr/uint"] = su.trunc_pr(pu)
    E["trunc_pr/uint-literal"] = su.trunc_pr(UnsignedInteger(2))
    E["__ne__"] = a != b
    E["__and__"] = sb & sc
    E["__or__"] = sb | sc
    E["__xor__"] = sb ^ sc
    E["__invert__/secret"] = ~sb
    E["__invert__/public"] = ~pc
    E["if_else"] = sb.if_else(a, b)
    E["public_equals"] = a.public_equals(b)
    E["trunc_pr"] = a.trunc_pr(pu)
    E["random/int"] = SecretInteger.random()
    E["random/uint"] = SecretUnsignedInteger.random()
    E["random/bool"] = SecretBoolean.random()
    E["to_public/int"] = a.to_public()
    E["to_public/uint"] = su.to_public()
    E["to_public/bool"] = sb.to_public()
    E["Integer"] = Integer(5)
    E["UnsignedInteger"] = UnsignedInteger(5)
    E["Boolean"] = Boolean(True)
    E["fold"] = Integer(2) + Integer(3)
    E["fold/invert"] = ~Boolean(True)
    E["__radd__/sum"] = sum([a, b])
    arr = Array(SecretInteger(Input(name="arr", party=p)), size=3)
    arr2 = Array(SecretInteger(Input(name="arr2", party=p)), size=3)
    E["Array.new"] = Array.new(a, b)
    E["Tuple.new"] = Tuple.new(a, b)
    E["NTuple.new"] = NTuple.new([a, pa])
    nt = E["NTuple.new"]
    E["NTuple.__getitem__"] = nt[0]
    E["Object.new"] = Object.new({"x": a, "y": pa})
    ob = E["Object.new"]
    E["Object.__getattr__"] = ob.x
    E["zip"] = arr.zip(arr2)
    E["unzip"] = unzip(arr.zip(arr2))
    E["inner_product"] = arr.inner_product(arr2)
    @nada_fn
    def inc(x: SecretInteger) -> SecretInteger:
        return x + x
    E["nada_fn"] = inc
    @nada_fn
    def add(x: SecretInteger, y: SecretInteger) -> SecretInteger:
        return x + y
    E["map"] = arr.map(inc)
    E["reduce"] = arr.reduce(add, a)
    E["call"] = inc(a)
    key = EcdsaPrivateKey(Input(name="key", party=p))
    dig = EcdsaDigestMessage(Input(name="dig", party=p))
    E["ecdsa_sign"] = key.ecdsa_sign(dig)
    E["Output"] = Output(a, "o", p)
    return E
'''


def static_call_sites():
    """(relative file, line) of every `….back_frame(` call in the package"""
    sites = []
    root = os.path.join(REPO, "nada_dsl")
    for d, _, fs in os.walk(root):
        for fn in fs:
            if not fn.endswith(".py"):
                continue
            path = os.path.join(d, fn)
            with open(path, encoding="utf-8") as f:
                try:
                    tree = ast.parse(f.read())
                except SyntaxError:
                    continue
            for n in ast.walk(tree):
                if isinstance(n, ast.Call) and isinstance(n.func, ast.Attribute) and n.func.attr == "back_frame":
                    # `SourceRef.back_frame().back_frame()`: the inner call is the receiver of the outer
                    sites.append((os.path.relpath(path, REPO), n.lineno))
    return sorted(set(sites))


def run_catalogue(filename="catalogue_user_prog.py", text=CATALOGUE, reset=True, subdir=None):
    """Execute the catalogue from a real file; returns rows (entry, file_ok, line_ok, text_ok) and
    the set of call sites reached."""
    from nada_dsl import source_ref, ast_util
    from nada_dsl.source_ref import SourceRef
    tmp = tempfile.mkdtemp(prefix="nvcat")
    if subdir:
        os.makedirs(os.path.join(tmp, subdir), exist_ok=True)
    path = os.path.join(tmp, subdir or "", filename)
    with open(path, "w", encoding="utf-8") as f:
        f.write(text)
    reached = set()
    orig = SourceRef.back_frame.__func__

    def spy(cls):
        fr = sys._getframe(1)
        reached.add((os.path.relpath(fr.f_code.co_filename, REPO), fr.f_lineno))
        # keep the frame distance of the original: call it from a frame that stands in for us
        return orig(cls)

    # The wrapper adds one frame between the caller and back_frame; compensate by calling the
    # original through a trampoline that the original's walk skips like any other DSL frame only if
    # it lived in the package. Instead of patching, record the call sites with a profile hook.
    rows = []
    lines = text.split("\n")
    line_of = {}
    for i, l in enumerate(lines, 1):
        s = l.strip()
        if s.startswith('E["'):
            line_of[s[3:s.index('"]')]] = i
    line_of["nada_fn"] = next(i for i, l in enumerate(lines, 1) if "def inc(" in l) - 1

    def tracer(frame, event, arg):
        if event == "call" and frame.f_code.co_name == "back_frame" and frame.f_back is not None:
            fb = frame.f_back
            reached.add((os.path.relpath(fb.f_code.co_filename, REPO), fb.f_lineno))
        return None

    try:
        if reset:
            reset_globals()
        first_id = ast_util.OPERATION_ID_COUNTER
        spec = importlib.util.spec_from_file_location(filename[:-3], path)
        mod = importlib.util.module_from_spec(spec)
        sys.setprofile(tracer)
        try:
            spec.loader.exec_module(mod)
            E = mod.build()
        finally:
            sys.setprofile(None)
        src = source_ref.USED_SOURCES.get(filename, "")
        for name, val in E.items():
            sr = None
            if hasattr(val, "source_ref") and not hasattr(val, "child"):
                sr = val.source_ref                       # Party, Output, NadaFunction
            elif hasattr(val, "source_ref") and name in ("Output", "Party", "nada_fn"):
                sr = val.source_ref
            else:
                ch = getattr(val, "child", None)
                op = ast_util.AST_OPERATIONS.get(getattr(ch, "id", None))
                sr = getattr(op, "source_ref", None) or getattr(ch, "source_ref", None)
            want = line_of.get(name)
            if sr is None or want is None:
                rows.append((name, False, False, False))
                continue
            rows.append((name, sr.file == filename, sr.lineno == want,
                         src[sr.offset:sr.offset + sr.length] == lines[want - 1] and sr.length > 0))
        # the parameters of a nada_fn are attributed to the decorator line
        for k, op in list(ast_util.AST_OPERATIONS.items()):
            if type(op).__name__ == "NadaFunctionArgASTOperation" and k > first_id:
                sr = op.source_ref
                rows.append((f"NadaFunctionArg#{op.name}", sr.file == filename, sr.lineno > 0,
                             sr.length > 0 and 1 <= sr.lineno <= len(lines)
                             and src[sr.offset:sr.offset + sr.length] == lines[sr.lineno - 1]))
    finally:
        if reset:
            reset_globals()
        shutil.rmtree(tmp, ignore_errors=True)
    return rows, reached


def emit():
    rows, reached = run_catalogue()
    sites = static_call_sites()
    unreached = [s for s in sites if s not in reached]
    L = ["/- GENERATED by harness/nv/extract/t4_frames.py (dynamic run of the entry-point catalogue) — do not edit. -/",
         "namespace NadaVerif.Generated", "",
         "/-- (entry point, reference names the user file, reference has the user's line, offset/length delimit that line) -/",
         "def frameTable : List (String × Bool × Bool × Bool) := ["]
    L.append(",\n".join(f'  ("{n}", {str(a).lower()}, {str(b).lower()}, {str(c).lower()})' for n, a, b, c in rows))
    L += ["]", "", "/-- syntactic `back_frame()` call sites of the package that the catalogue did not reach -/",
          "def unreachedCallSites : List (String × Nat) := [" + ", ".join(f'("{f}", {l})' for f, l in unreached) + "]",
          "", f"def callSiteCount : Nat := {len(sites)}", "", "end NadaVerif.Generated", ""]
    return "\n".join(L)


if __name__ == "__main__":
    print(emit())
