"""T1 — exhaustive evaluation of the scalar operator rules of the *running* nada_dsl.

For every operator/method and every ordered tuple of the nine scalar classes the operands are
built in each provenance class (literal constructor / Input wrapper / operation result / nada_fn
parameter / NTuple element / Object field) and the outcome is recorded:
  reject | ok(result class, folded?, recorded-op name, MIR type of the recorded op)
Output: Lean source of `NadaVerif/Generated/ScalarTable.lean`.
"""
import itertools
from nada_dsl import *  # noqa
from nada_dsl import ast_util
from nada_dsl.nada_types.scalar_types import ScalarType
from ..real.env import reset_globals

MODES = ["const", "pub", "sec"]
BASES = ["int", "uint", "bool"]
CLASSES = {
    ("const", "int"): Integer, ("const", "uint"): UnsignedInteger, ("const", "bool"): Boolean,
    ("pub", "int"): PublicInteger, ("pub", "uint"): PublicUnsignedInteger, ("pub", "bool"): PublicBoolean,
    ("sec", "int"): SecretInteger, ("sec", "uint"): SecretUnsignedInteger, ("sec", "bool"): SecretBoolean,
}
STYS = [(m, b) for m in MODES for b in BASES]
NAME2STY = {c.__name__: k for k, c in CLASSES.items()}

BINOPS = [
    ("add", lambda a, b: a + b), ("sub", lambda a, b: a - b), ("mul", lambda a, b: a * b),
    ("div", lambda a, b: a / b), ("mod", lambda a, b: a % b), ("pow", lambda a, b: a ** b),
    ("shl", lambda a, b: a << b), ("shr", lambda a, b: a >> b),
    ("lt", lambda a, b: a < b), ("gt", lambda a, b: a > b), ("le", lambda a, b: a <= b),
    ("ge", lambda a, b: a >= b), ("eq", lambda a, b: a == b), ("ne", lambda a, b: a != b),
    ("and", lambda a, b: a & b), ("or", lambda a, b: a | b), ("xor", lambda a, b: a ^ b),
]
METHODS2 = [("truncPr", lambda a, b: a.trunc_pr(b)), ("publicEquals", lambda a, b: a.public_equals(b))]
UNARY = [("invert", lambda a: ~a), ("reveal", lambda a: a.to_public())]

_cnt = [0]


def _fresh(prefix="x"):
    _cnt[0] += 1
    return f"{prefix}{_cnt[0]}"


# "litzero" / "litother": the same classes with other literal *values* (False / 0, 1 / True, and 2) — the outcome must not
# depend on the value a literal happens to have (a value-dependent shortcut such as `x | False -> False` would)
# "sameobj": operands of the same class are one and the same Python object (`x == x`, `x - x`); "revealed": every secret operand
# has been revealed before (`x.to_public()`, result dropped) — the outcome depends on the classes only, not on the history of the object
# "cmpresult": a boolean operand is the result of an equality test with a literal on the right (`x == Integer(3)`)
PROVENANCES = ["direct", "opresult", "ntuple", "object", "fnparam", "litzero", "litother", "littwo", "sameobj", "revealed", "cmpresult"]


def _direct(sty, party, salt=3):
    cls = CLASSES[sty]
    if sty[0] == "const":
        return cls(True if sty[1] == "bool" else salt)
    return cls(Input(_fresh(), party))


def build(sty, prov, party):
    """An operand of class `sty` produced in the given way (None: provenance not available)."""
    cls = CLASSES[sty]
    if prov == "direct":
        return _direct(sty, party)
    if prov in ("litzero", "litother", "littwo"):
        if sty[0] != "const":
            return _direct(sty, party)
        if sty[1] == "bool":
            return cls(prov != "litzero")
        return cls({"litzero": 0, "litother": 1, "littwo": 2}[prov])
    if prov == "cmpresult":
        if sty[1] != "bool" or sty[0] == "const":
            return _direct(sty, party)
        x = _direct((sty[0], "int"), party)
        return x == CLASSES[("const", "int")](3)
    if prov == "opresult":
        a, b = _direct(sty, party, 5), _direct(sty, party, 2)
        if sty[1] == "bool":
            return a ^ b
        return a + b
    if prov == "ntuple":
        nt = NTuple.new([_direct(("sec", "int"), party), _direct(sty, party)])
        return nt[1]
    if prov == "object":
        ob = Object.new({"p": _direct(("sec", "int"), party), "q": _direct(sty, party)})
        return ob.q
    raise ValueError(prov)


def build_all(stys, prov, party):
    """The operands of one cell for a provenance (see PROVENANCES)."""
    if prov == "sameobj":
        shared = {}
        return [shared[s] if s in shared else shared.setdefault(s, build(s, "direct", party)) for s in stys]
    if prov == "revealed":
        ops = [build(s, "direct", party) for s in stys]
        for o in ops:
            if hasattr(o, "to_public"):
                o.to_public()
        return ops
    return [build(s, prov, party) for s in stys]


def outcome(thunk):
    before = ast_util.OPERATION_ID_COUNTER
    try:
        res = thunk()
    except (ZeroDivisionError, OverflowError, ValueError) as exc:
        # value-level failure of a folded operation (e.g. the placeholder 0 of a literal-typed
        # function parameter as divisor): not a typing outcome, the provenance is skipped
        return ("valueerror", type(exc).__name__)
    except Exception as exc:  # pylint: disable=broad-except
        return ("reject", type(exc).__name__)
    if not isinstance(res, ScalarType) or type(res).__name__ not in NAME2STY:
        return ("weird", type(res).__name__)
    sty = NAME2STY[type(res).__name__]
    if ast_util.OPERATION_ID_COUNTER == before:
        return ("ok", sty, True, "alias", "")
    op = ast_util.AST_OPERATIONS.get(res.child.id)
    kind = type(op).__name__
    if kind == "LiteralASTOperation":
        return ("ok", sty, True, "Literal", str(op.ty))
    name = getattr(op, "name", kind.replace("ASTOperation", ""))
    return ("ok", sty, False, name, str(op.ty))


def with_params(stys, fn):
    """Evaluate fn(*params) inside a traced nada_fn whose parameters have classes `stys`."""
    box = {}
    names = [f"a{i}" for i in range(len(stys))]
    src = "def body(" + ", ".join(names) + "):\n    box['r'] = fn(" + ", ".join(names) + ")\n    return ret\n"
    party = Party("pp")
    env = {"box": box, "fn": fn, "ret": SecretInteger(Input(_fresh(), party))}
    exec(src, env)  # harness-local code, not repo code
    body = env["body"]
    # at least one non-literal parameter so the function itself is not rejected
    args_ty = {n: CLASSES[s] for n, s in zip(names, stys)}
    names2 = list(names)
    if all(s[0] == "const" for s in stys):
        src2 = "def body2(" + ", ".join(names + ["zz"]) + "):\n    box['r'] = fn(" + ", ".join(names) + ")\n    return ret\n"
        exec(src2, env)
        body = env["body2"]
        args_ty["zz"] = SecretInteger
    try:
        nada_fn(body, args_ty=args_ty, return_ty=SecretInteger)
    except Exception:  # pylint: disable=broad-except
        pass
    return box.get("r")


def rows():
    out = []
    party_name = "p"

    def cell(opname, f, stys):
        results = []
        for prov in PROVENANCES:
            reset_globals()
            party = Party(party_name)
            if prov == "fnparam":
                r = with_params(stys, lambda *ps: outcome(lambda: f(*ps)))
                if r is None:
                    r = ("weird", "fnparam-not-run")
            else:
                try:
                    ops = build_all(stys, prov, party)
                except Exception as exc:  # pylint: disable=broad-except
                    results.append(("weird", "build:" + type(exc).__name__))
                    continue
                r = outcome(lambda: f(*ops))
            results.append(r)
        out.append((opname, stys, results))

    for name, f in BINOPS + METHODS2:
        for a, b in itertools.product(STYS, STYS):
            cell(name, f, (a, b))
    for a, b, c in itertools.product(STYS, STYS, STYS):
        cell("ifElse", lambda x, y, z: x.if_else(y, z), (a, b, c))
    for name, f in UNARY:
        for a in STYS:
            cell(name, f, (a,))
    # random: classmethod, no operand
    for a in STYS:
        reset_globals()
        r = outcome(lambda: CLASSES[a].random())
        out.append(("random", (a,), [r]))
    reset_globals()
    return out


def _sty(s):
    return f"⟨.{s[0]}, .{s[1]}⟩"


def _out(r):
    if r[0] == "reject":
        return ".reject"
    if r[0] == "weird":
        return ".weird"
    _, sty, folded, name, ty = r
    return f'.ok {_sty(sty)} {"true" if folded else "false"} "{name}" "{ty}"'


def norm(r):
    # the exception class of a rejection is not part of the typing outcome
    return ("reject",) if r[0] == "reject" else r


def emit():
    rs = rows()
    lines = [
        "/- GENERATED by harness/nv/extract/t1_scalar.py from the running nada_dsl — do not edit. -/",
        "import NadaVerif.Scalar",
        "namespace NadaVerif.Generated",
        "open NadaVerif",
        "",
        "/-- What the real classes did on one cell (`weird` = result is not one of the nine scalar classes). -/",
        "inductive ROut where",
        "  | reject | weird",
        "  | ok (t : STy) (folded : Bool) (opName : String) (mirTy : String)",
        "  deriving DecidableEq, Repr",
        "",
        "/-- (operator, operand classes, distinct outcomes over the provenance classes) -/",
        "abbrev Row := String × List STy × List ROut",
        "",
    ]
    by_op = {}
    for name, stys, results in rs:
        distinct = []
        for r in results:
            if r[0] == "valueerror":
                continue
            r = norm(r)
            if r not in distinct:
                distinct.append(r)
        by_op.setdefault(name, []).append((stys, distinct))
    names = []
    for name, cells in by_op.items():
        # split big tables into chunks so that each `decide` stays small
        chunk = 81
        for k in range(0, len(cells), chunk):
            nm = f"tbl_{name}_{k // chunk}"
            names.append(nm)
            lines.append(f"def {nm} : List Row := [")
            body = []
            for stys, distinct in cells[k:k + chunk]:
                body.append(f'  ("{name}", [{", ".join(_sty(s) for s in stys)}], [{", ".join(_out(r) for r in distinct)}])')
            lines.append(",\n".join(body))
            lines.append("]")
            lines.append("")
    lines.append("def scalarTables : List (List Row) := [" + ", ".join(names) + "]")
    lines.append("")
    lines.append("end NadaVerif.Generated")
    return "\n".join(lines) + "\n", rs


if __name__ == "__main__":
    import sys
    text, _ = emit()
    sys.stdout.write(text)
