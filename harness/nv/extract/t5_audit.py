"""T5 — tables of the auditing component, by exhaustive evaluation of the running code:
 * abstractTable: every modelled operator of nada_dsl.audit's abstract classes x every tuple of
   operand classes -> result class or reject;
 * checkerTable: the type the strict checker infers for `c = a OP b`, `c = OPa`, `c = cond.if_else(a, b)`
   with operands of every class (and int / str / bool);
 * absValue: the value-propagation expression of every abstract operator, translated syntactically
   from abstract.py (T2's grammar).
Output: Lean source of `NadaVerif/Generated/AuditTables.lean`."""
import ast
import itertools
import operator
import os
from ..core import REPO
from .t2_fold import tr, attr, Untranslatable, lean_str

INTS = ["Integer", "PublicInteger", "SecretInteger"]
BOOLS = ["Boolean", "PublicBoolean", "SecretBoolean"]
BINOPS = {"add": operator.add, "sub": operator.sub, "mul": operator.mul, "lt": operator.lt, "le": operator.le,
          "gt": operator.gt, "ge": operator.ge, "eq": operator.eq, "ne": operator.ne}
SYM = {"add": "+", "sub": "-", "mul": "*", "lt": "<", "le": "<=", "gt": ">", "ge": ">=", "eq": "==", "ne": "!="}
DUNDER = {"add": "__add__", "sub": "__sub__", "mul": "__mul__", "lt": "__lt__", "le": "__le__", "gt": "__gt__",
          "ge": "__ge__", "eq": "__eq__", "ne": "__ne__", "neg": "__neg__", "pos": "__pos__"}


def abstract_rows():
    import nada_dsl.audit.abstract as A
    rows = []
    A.Abstract.initialize({})

    def mk(name):
        return getattr(A, name)()

    for op, f in BINOPS.items():
        for a, b in itertools.product(INTS + BOOLS, repeat=2):
            try:
                r = type(f(mk(a), mk(b))).__name__
                if r == "bool":
                    r = "pybool"
            except Exception:  # pylint: disable=broad-except
                r = "reject"
            rows.append((op, [a, b], r))
    for op, f in (("neg", operator.neg), ("pos", operator.pos)):
        for a in INTS + BOOLS:
            try:
                r = type(f(mk(a))).__name__
            except Exception:  # pylint: disable=broad-except
                r = "reject"
            rows.append((op, [a], r))
    for c, a, b in itertools.product(INTS + BOOLS, repeat=3):
        try:
            r = type(mk(c).if_else(mk(a), mk(b))).__name__
        except Exception:  # pylint: disable=broad-except
            r = "reject"
        rows.append(("ifElse", [c, a, b], r))
    return rows


def checker_type(expr, decls):
    """type the strict checker assigns to `c = <expr>` after the declarations"""
    import importlib
    S = importlib.import_module("nada_dsl.audit.strict")
    from nada_dsl.audit.report import parse, type_to_str
    src = "from nada_dsl import *\ndef nada_main():\n    p = Party(name='P')\n" + \
        "".join(f"    {d}\n" for d in decls) + f"    c = {expr}\n"
    atok, _ = parse(src)
    S.rules(atok.tree)
    S.types(atok.tree)
    for n in ast.walk(atok.tree):
        if isinstance(n, ast.Assign) and isinstance(n.targets[0], ast.Name) and n.targets[0].id == "c":
            t = getattr(n, "_audits", {}).get("types")
            if t is None:
                return "restricted"
            if isinstance(t, TypeError):
                return "error"
            return type_to_str(t)
    return "missing"


DECL = {
    "Integer": "{v} = Integer(5)", "PublicInteger": "{v} = PublicInteger(Input(name='{v}', party=p))",
    "SecretInteger": "{v} = SecretInteger(Input(name='{v}', party=p))",
    "PublicBoolean": "{v} = PublicInteger(Input(name='{v}1', party=p)) < PublicInteger(Input(name='{v}2', party=p))",
    "SecretBoolean": "{v} = SecretInteger(Input(name='{v}1', party=p)) < SecretInteger(Input(name='{v}2', party=p))",
    "Boolean": "{v} = Integer(1) < Integer(2)",
    "int": "{v} = 5", "str": "{v} = 's'", "bool": "{v} = True",
}


def checker_rows():
    rows = []
    kinds = INTS + BOOLS + ["int", "str", "bool"]
    for op in BINOPS:
        for a, b in itertools.product(kinds, repeat=2):
            rows.append((op, [a, b], checker_type(f"a {SYM[op]} b", [DECL[a].format(v="a"), DECL[b].format(v="b")])))
    for op, sym in (("neg", "-"), ("pos", "+")):
        for a in kinds:
            rows.append((op, [a], checker_type(f"{sym}a", [DECL[a].format(v="a")])))
    for c, a, b in itertools.product(INTS + BOOLS, INTS + BOOLS, INTS + BOOLS):
        rows.append(("ifElse", [c, a, b], checker_type("k.if_else(a, b)", [DECL[c].format(v="k"), DECL[a].format(v="a"), DECL[b].format(v="b")])))
    return rows


def value_exprs():
    """op -> PyExpr term of `result.value = …` in abstract.py"""
    path = os.path.join(REPO, "nada_dsl", "audit", "abstract.py")
    with open(path, encoding="utf-8") as f:
        tree = ast.parse(f.read())
    out = {}
    classes = {n.name: n for n in tree.body if isinstance(n, ast.ClassDef)}
    env2 = {attr("self", "value"): ".lhs", attr("other", "value"): ".rhs"}
    env3 = {attr("self", "value"): ".third", attr("true", "value"): ".lhs", attr("false", "value"): ".rhs"}
    for op, dunder in list(DUNDER.items()) + [("ifElse", "if_else")]:
        cls = classes.get("AbstractBoolean" if op == "ifElse" else "AbstractInteger")
        fn = next((m for m in cls.body if isinstance(m, ast.FunctionDef) and m.name == dunder), None) if cls else None
        if fn is None:
            out[op] = f'(.untranslated "{dunder} not found")'
            continue
        assigns = [n for n in ast.walk(fn) if isinstance(n, ast.Assign) and len(n.targets) == 1
                   and isinstance(n.targets[0], ast.Attribute) and n.targets[0].attr == "value"
                   and not (isinstance(n.value, ast.Constant) and n.value.value is None)]
        # the last assignment of a non-None value (the guarded one); `result.value = self.value` for the sum base case comes first
        cand = [n for n in assigns if not (isinstance(n.value, ast.Attribute) and op in ("add",))]
        if not cand:
            out[op] = f'(.untranslated "no value assignment in {dunder}")'
            continue
        try:
            out[op] = tr(cand[-1].value, env3 if op == "ifElse" else env2)
        except Untranslatable as u:
            out[op] = f"(.untranslated {lean_str(str(u))})"
    return out


def emit():
    L = ["/- GENERATED by harness/nv/extract/t5_audit.py from the running nada_dsl.audit — do not edit. -/",
         "import NadaVerif.Py.Int", "namespace NadaVerif.Generated", "open NadaVerif.Py", "",
         "/-- (operator, operand classes, result class of the abstract interpreter or \"reject\") -/",
         "def abstractTable : List (String × List String × String) := ["]
    L.append(",\n".join(f'  ("{op}", [{", ".join(chr(34) + a + chr(34) for a in args)}], "{r}")' for op, args, r in abstract_rows()))
    L += ["]", "", "/-- (operator, operand types, type the strict checker infers: a class name, \"error\", \"restricted\") -/",
          "def checkerTable : List (String × List String × String) := ["]
    L.append(",\n".join(f'  ("{op}", [{", ".join(chr(34) + a + chr(34) for a in args)}], "{r}")' for op, args, r in checker_rows()))
    L += ["]", "", "/-- value propagation of each abstract operator (`result.value = …`), `third` = the condition of if_else -/",
          "def absValueExpr : String → PyExpr"]
    for op, term in value_exprs().items():
        L.append(f'  | "{op}" => {term}')
    L += ['  | _ => .untranslated "unknown operator"', "", "end NadaVerif.Generated", ""]
    return "\n".join(L)


if __name__ == "__main__":
    print(emit())
