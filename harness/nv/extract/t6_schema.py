"""T6 / T7 — sentinel evaluation of the `*ASTOperation` classes (child_operations, to_mir) and of
every wrapper's `store_in_ast`, plus a syntactic check that those bodies are straight-line.

T6: instantiate each AST class with pairwise distinct integer sentinels in its id-valued fields and
read off which field went into `child_operations()` and under which key into `to_mir()`.
T7: call `store_in_ast` of each operation wrapper with fake operands whose `.child.id` are distinct
sentinels and read off which wrapper attribute reached which AST field.
Output: Lean source of `NadaVerif/Generated/AstSchema.lean`.
"""
import ast
import dataclasses
import inspect
import os
import textwrap

from nada_dsl import ast_util
import nada_dsl.operations as ops_mod
import nada_dsl.nada_types.collections as coll_mod
import nada_dsl.nada_types.function as fn_mod
import nada_dsl.program_io as io_mod
from ..real.env import reset_globals


class _SR:
    def to_index(self):
        return 0


def lean_str(s):
    return '"' + str(s).replace("\\", "\\\\").replace('"', '\\"') + '"'


def straight_line(fn):
    """No if/for/while/comparison/try in the body (one evaluation determines the mapping).
    List comprehensions over a field are allowed."""
    try:
        src = textwrap.dedent(inspect.getsource(fn))
        tree = ast.parse(src)
    except (OSError, TypeError, SyntaxError):
        return False
    for n in ast.walk(tree):
        if isinstance(n, (ast.If, ast.For, ast.While, ast.Try, ast.IfExp, ast.Compare, ast.BoolOp, ast.Match)):
            return False
    return True


def ast_classes():
    out = []
    for name, cls in vars(ast_util).items():
        if inspect.isclass(cls) and issubclass(cls, ast_util.ASTOperation) and cls is not ast_util.ASTOperation:
            out.append((name, cls))
    return sorted(out)


def t6_rows():
    rows = []
    for name, cls in ast_classes():
        fields = [f.name for f in dataclasses.fields(cls)]
        sent = {}
        kwargs = {}
        nxt = 1000
        for f in fields:
            if f == "id":
                kwargs[f] = 7
            elif f == "source_ref":
                kwargs[f] = _SR()
            elif f == "ty":
                kwargs[f] = "TY"
            elif f in ("elements", "args"):
                kwargs[f] = [nxt, nxt + 1]
                sent[nxt], sent[nxt + 1] = f + "[0]", f + "[1]"
                nxt += 2
            elif f in ("name", "doc", "key"):
                kwargs[f] = "S_" + f
                sent["S_" + f] = f
            elif f == "party":
                kwargs[f] = "S_party"
            elif f in ("value", "literal_index"):
                kwargs[f] = "S_" + f
                sent["S_" + f] = f
            else:
                kwargs[f] = nxt
                sent[nxt] = f
                nxt += 1
        try:
            if name == "LiteralASTOperation":
                reset_globals()
                obj = cls(operation_id=7, name="S_name", ty="TY", value="S_value", source_ref=_SR())
                sent[str(obj.literal_index)] = "literal_index"
            else:
                obj = cls(**kwargs)
        except Exception as exc:  # pylint: disable=broad-except
            rows.append((name, None, None, None, f"ctor: {type(exc).__name__}", False))
            continue
        try:
            children = [sent.get(c, f"?{c}") for c in obj.child_operations()]
            # a list-valued field returned whole, in order
            if len(children) == 2 and children[0].endswith("[0]") and children[1].endswith("[1]") \
                    and children[0][:-3] == children[1][:-3]:
                children = [children[0][:-3] + "[*]"]
        except Exception as exc:  # pylint: disable=broad-except
            children = [f"!{type(exc).__name__}"]
        opname, mirmap = "", []
        try:
            if name == "NadaFunctionASTOperation":
                ast_util.AST_OPERATIONS.clear()
                for a in kwargs["args"]:
                    ast_util.AST_OPERATIONS[a] = ast_util.NadaFunctionArgASTOperation(
                        id=a, name=f"ARG{a}", fn=7, ty="TY", source_ref=_SR())
                mir = obj.to_mir("OPS")
                opname = "<function>"
                body = dict(mir)
                if [d.get("name") for d in body.get("args", [])] == [f"ARG{a}" for a in kwargs["args"]]:
                    body["args"] = list(kwargs["args"])
                if body.get("operations") == "OPS":
                    del body["operations"]
            else:
                mir = obj.to_mir()
                if mir:
                    opname = next(iter(mir))
                    body = mir[opname]
                    if opname == "S_name":
                        opname = "<self.name>"
                else:
                    body = {}
            for k, v in body.items():
                if isinstance(v, list):
                    srcs = [sent.get(x, None) for x in v]
                    if v and all(s is not None for s in srcs) and srcs[0].endswith("[0]"):
                        mirmap.append((k, srcs[0][:-3]))
                    else:
                        mirmap.append((k, "?list"))
                elif v == 7:
                    mirmap.append((k, "id"))
                elif v == "TY":
                    mirmap.append((k, "ty"))
                elif k == "source_ref_index":
                    continue
                elif isinstance(v, dict):
                    mirmap.append((k, "?dict"))
                else:
                    mirmap.append((k, sent.get(v, f"?{v}")))
        except Exception as exc:  # pylint: disable=broad-except
            mirmap = [("!", type(exc).__name__)]
        sl = straight_line(cls.child_operations) and straight_line(cls.to_mir)
        rows.append((name, children, opname, mirmap, "", sl))
    reset_globals()
    return rows


class _Fake:
    """An operand whose `.child.id` is a sentinel."""

    def __init__(self, ident):
        self.child = type("C", (), {"id": ident})()
        self.id = ident


def t7_rows():
    """(wrapper class, AST class stored, [(ast field, wrapper attribute path)])"""
    rows = []
    cands = []
    for mod in (ops_mod, coll_mod, fn_mod, io_mod):
        for name, cls in vars(mod).items():
            if inspect.isclass(cls) and cls.__module__ == mod.__name__ and "store_in_ast" in cls.__dict__:
                cands.append((name, cls))
    # subclasses of BinaryOperation / UnaryOperation inherit store_in_ast: one representative each
    cands += [("Addition", ops_mod.Addition), ("Reveal", ops_mod.Reveal), ("Not", ops_mod.Not)]
    for name, cls in sorted(set(cands), key=lambda x: x[0]):
        reset_globals()
        obj = object.__new__(cls)
        obj.id = 7
        obj.source_ref = _SR()
        sent = {}
        nxt = 2000
        # give every plausible attribute a fake operand with a distinct sentinel
        for attr in ("left", "right", "this", "arg_0", "arg_1", "initial", "fn", "target"):
            setattr(obj, attr, _Fake(nxt))
            sent[nxt] = attr
            nxt += 1
        if name in ("TupleNew", "NTupleNew", "ArrayNew"):
            obj.child = [_Fake(nxt), _Fake(nxt + 1)]
            sent[nxt], sent[nxt + 1] = "child[0]", "child[1]"
        elif name == "ObjectNew":
            obj.child = {"k0": _Fake(nxt), "k1": _Fake(nxt + 1)}
            sent[nxt], sent[nxt + 1] = "child[0]", "child[1]"
        else:
            obj.child = _Fake(nxt)
            sent[nxt] = "child"
        nxt += 2
        obj.args = [_Fake(nxt), _Fake(nxt + 1)]
        sent[nxt], sent[nxt + 1] = "args[0]", "args[1]"
        nxt += 2
        obj.index, obj.key, obj.name, obj.doc, obj.value = 5, "S_key", "S_name", "S_doc", "S_value"
        obj.party = "S_party"
        obj.function_id = 3000
        sent[3000] = "function_id"
        obj.function = type("F", (), {"__name__": "S_fname"})()
        obj.return_type = type("R", (), {"class_to_mir": staticmethod(lambda: "TY")})()
        try:
            if name == "NadaFunction":
                obj.child = _Fake(nxt)
                sent[nxt] = "child"
                obj.store_in_ast()
            else:
                obj.store_in_ast("TY")
        except Exception as exc:  # pylint: disable=broad-except
            rows.append((name, "!" + type(exc).__name__, [], False))
            continue
        stored = ast_util.AST_OPERATIONS.get(7)
        mapping = []
        for f in dataclasses.fields(stored):
            v = getattr(stored, f.name)
            if f.name in ("id", "source_ref", "ty", "literal_index"):
                continue
            if isinstance(v, list):
                srcs = [sent.get(x) for x in v]
                mapping.append((f.name, srcs[0][:-3] + "[*]" if srcs and srcs[0] and srcs[0].endswith("[0]") and srcs[1].endswith("[1]") else "?list"))
            elif isinstance(v, int) and v in sent:
                mapping.append((f.name, sent[v]))
            elif v == 5:
                mapping.append((f.name, "index"))
            elif isinstance(v, str) and v.startswith("S_"):
                mapping.append((f.name, v[2:]))
            elif f.name == "name":
                mapping.append((f.name, "<class name>" if v == name else f"<{v}>"))
            else:
                mapping.append((f.name, f"?{v}"))
        rows.append((name, type(stored).__name__, mapping, straight_line(cls.store_in_ast)))
    reset_globals()
    return rows


def emit():
    L = [
        "/- GENERATED by harness/nv/extract/t6_schema.py from nada_dsl/ast_util.py and the wrapper classes — do not edit. -/",
        "namespace NadaVerif.Generated",
        "",
        "/-- (AST class, fields returned by child_operations(), MIR operation name, to_mir: (MIR key, field), straight-line?) -/",
        "def astSchema : List (String × List String × String × List (String × String) × Bool) := [",
    ]
    body = []
    for name, children, opname, mirmap, err, sl in t6_rows():
        if children is None:
            body.append(f'  ({lean_str(name)}, ["!{err}"], "", [], false)')
            continue
        ch = ", ".join(lean_str(c) for c in children)
        mm = ", ".join(f"({lean_str(k)}, {lean_str(v)})" for k, v in mirmap)
        body.append(f'  ({lean_str(name)}, [{ch}], {lean_str(opname)}, [{mm}], {"true" if sl else "false"})')
    L.append(",\n".join(body))
    L += ["]", "",
          "/-- (wrapper class, AST class it stores, (AST field, wrapper attribute whose `.child.id` / value flows there), straight-line?) -/",
          "def storeSchema : List (String × String × List (String × String) × Bool) := ["]
    body = []
    for name, stored, mapping, sl in t7_rows():
        mm = ", ".join(f"({lean_str(k)}, {lean_str(v)})" for k, v in mapping)
        body.append(f'  ({lean_str(name)}, {lean_str(stored)}, [{mm}], {"true" if sl else "false"})')
    L.append(",\n".join(body))
    L += ["]", "", "end NadaVerif.Generated", ""]
    return "\n".join(L)


if __name__ == "__main__":
    print(emit())
