"""One PRNG for everything: all random choices of a run derive from VERIF_SEED."""
import random
from ..core import seed


def make(tag=""):
    return random.Random(f"{seed()}:{tag}")


MAGS = [0, 1, 2, 3, 7, 10, 255, 2**31 - 1, 2**31, 2**53 - 1, 2**53, 2**53 + 1, 2**60 + 1, 2**63, 2**64 - 1,
        2**64, 2**64 + 1, 2**128 + 12345, 2**256, 2**256 - 1, 10**40 + 7, 10**400, 10**400 + 1]


def big_int(rng, signed=True):
    k = rng.random()
    if k < 0.35:
        v = rng.randint(0, 20)
    elif k < 0.8:
        v = rng.choice(MAGS) + rng.choice([0, 0, 1, -1, rng.randint(-1000, 1000)])
    else:
        v = rng.getrandbits(rng.choice([8, 16, 54, 65, 130, 300, 1400]))
    if signed and rng.random() < 0.45:
        v = -v
    return v
