"""Seeded generator of layer-B programs, driven *online* against the real implementation: each
command is executed on the real nada_dsl as soon as it is generated and operands are chosen by
looking at the real objects in the registers (so well-typed choices need no re-implementation of
the typing rules), 80 % fitting operands / 20 % arbitrary live values (the malformed stream)."""
from ..real.interp import Machine, DEAD, describe
from ..real.env import reset_globals
from . import rng as R

PUBSEC = ["PublicInteger", "PublicUnsignedInteger", "PublicBoolean", "SecretInteger", "SecretUnsignedInteger",
          "SecretBoolean"]
ALLSC = ["Integer", "UnsignedInteger", "Boolean"] + PUBSEC
BOPS = ["add", "sub", "mul", "div", "mod", "pow", "shl", "shr", "lt", "gt", "le", "ge", "eq", "ne", "and", "or", "xor"]
KEYS = ["x", "y", "z", "k0", "k1", "amount"]


class Gen:
    def __init__(self, rng, max_cmds=25, max_depth=2, escapes=False):
        self.rng = rng
        self.m = Machine()
        self.max_cmds = max_cmds
        self.max_depth = max_depth
        self.escapes = escapes
        self.scope = []          # scope id of every register
        self.cur = [0]           # stack of open scope ids
        self.next_scope = 1
        self.ncmd = 0
        self.nin = 0
        self.nfn = 0
        self.dist = {}
        self.parties = []

    # ---- bookkeeping --------------------------------------------------------------------------
    def _sync(self):
        while len(self.scope) < len(self.m.regs):
            self.scope.append(self.cur[-1])

    def _visible(self, r):
        if self.m.regs[r] is DEAD:
            return False
        s = self.scope[r]
        return s == 0 or s == self.cur[-1] or (self.escapes and s in self.cur)

    def regs_where(self, pred):
        return [r for r in range(len(self.m.regs)) if self._visible(r) and pred(describe(self.m.regs[r]))]

    def pick(self, pred, anyval=True):
        """80 %: a register satisfying pred; 20 %: any live Nada value (malformed stream)."""
        rng = self.rng
        good = self.regs_where(pred)
        if good and (rng.random() < 0.8 or not anyval):
            # prefer recent registers
            return good[-1 - min(int(rng.expovariate(0.35)), len(good) - 1)]
        if not anyval:
            return None
        anyv = self.regs_where(lambda d: d[0] in ("scalar", "array", "tuple", "ntuple", "object"))
        if anyv:
            return rng.choice(anyv)
        return good[0] if good else None

    def do(self, cmd):
        if cmd["op"] == "bin" and cmd["bop"] in ("shl", "shr", "pow") and None not in (cmd["a"], cmd["b"]):
            # keep literal exponents / shift counts small: CPython would otherwise compute forever
            va = getattr(self.m.regs[cmd["a"]], "value", None)
            vb = getattr(self.m.regs[cmd["b"]], "value", None)
            if (isinstance(vb, int) and not -2 <= vb <= 64) or (isinstance(va, int) and abs(va) > 2**70 and cmd["bop"] == "pow"):
                cmd = dict(cmd, bop="add")
        if any(v is None for k, v in cmd.items() if k in ("a", "b", "c", "r", "t", "o", "f", "init")):
            return None
        self.ncmd += 1
        self.dist[cmd["op"]] = self.dist.get(cmd["op"], 0) + 1
        err = self.m.exec(cmd)
        self._sync()
        return err

    # ---- command builders ---------------------------------------------------------------------
    def new_input(self, t=None, party=None):
        rng = self.rng
        p = party if party is not None else rng.choice(self.parties)
        self.nin += 1
        name = f"in{self.nin}" if rng.random() > 0.04 else f"in{rng.randint(1, max(1, self.nin))}"
        self.do({"op": "inputObj", "name": name, "doc": rng.choice(["", "", f"doc of {name}"]), "party": p})
        r = len(self.m.regs) - 1
        self.do({"op": "wrap", "t": t or rng.choice(PUBSEC), "r": r})
        return len(self.m.regs) - 1

    def scalar(self, names=None):
        return self.pick(lambda d: d[0] == "scalar" and (names is None or d[1] in names))

    def gen_one(self):
        rng = self.rng
        k = rng.random()
        isarr = lambda d: d[0] == "array"
        if k < 0.10:
            return self.new_input()
        if k < 0.14:
            # array input
            r = self.new_input(rng.choice(PUBSEC))
            return self.do({"op": "arrayOf", "r": r, "size": rng.choice([1, 2, 3, 3, 3, 10, 0, -1, None])})
        if k < 0.22:
            base = rng.choice(["int", "int", "uint", "bool"])
            v = rng.choice([True, False]) if base == "bool" else str(R.big_int(rng, signed=(base == "int")))
            return self.do({"op": "lit", "base": base, "v": v})
        if k < 0.47:
            a = self.scalar()
            if a is None:
                return self.new_input()
            da = describe(self.m.regs[a])
            if da[0] != "scalar":
                return self.do({"op": "bin", "bop": rng.choice(BOPS), "a": a, "b": self.scalar() or a})
            # a second operand of the same class most of the time, otherwise any scalar
            same = self.regs_where(lambda d: d[0] == "scalar" and d[1].replace("Public", "").replace("Secret", "")
                                   == da[1].replace("Public", "").replace("Secret", ""))
            b = rng.choice(same) if same and rng.random() < 0.7 else self.scalar()
            bop = rng.choice(BOPS)
            if "Boolean" in da[1] and rng.random() < 0.7:
                bop = rng.choice(["and", "or", "xor", "eq", "ne"])
            if bop in ("shl", "shr", "pow") and rng.random() < 0.7:
                u = self.regs_where(lambda d: d[0] == "scalar" and d[1] in ("UnsignedInteger", "PublicUnsignedInteger"))
                if u:
                    b = rng.choice(u)
            if rng.random() < 0.5:
                a, b = b, a
            return self.do({"op": "bin", "bop": bop, "a": a, "b": b})
        if k < 0.50:
            a = self.scalar(["Boolean", "PublicBoolean", "SecretBoolean"])
            return self.do({"op": "invert", "a": a}) if a is not None else None
        if k < 0.53:
            a = self.scalar()
            return self.do({"op": "reveal", "a": a}) if a is not None else None
        if k < 0.55:
            a = self.scalar(["SecretInteger", "SecretUnsignedInteger"])
            b = self.scalar(["UnsignedInteger", "PublicUnsignedInteger"])
            return self.do({"op": "truncPr", "a": a, "b": b}) if None not in (a, b) else None
        if k < 0.57:
            a, b = self.scalar(PUBSEC), self.scalar(PUBSEC)
            return self.do({"op": "publicEquals", "a": a, "b": b}) if None not in (a, b) else None
        if k < 0.62:
            c = self.scalar(["PublicBoolean", "SecretBoolean", "Boolean"])
            a = self.scalar([n for n in ALLSC if "Boolean" not in n])
            b = self.scalar([n for n in ALLSC if "Boolean" not in n])
            return self.do({"op": "ifElse", "c": c, "a": a, "b": b}) if None not in (a, b, c) else None
        if k < 0.64:
            return self.do({"op": "random", "t": rng.choice(PUBSEC[3:] * 3 + ALLSC)})
        if k < 0.66:
            a = self.scalar([n for n in ALLSC if "Boolean" not in n])
            return self.do({"op": "radd", "k": str(rng.choice([0, 1, 5, 2**64])), "a": a}) if a is not None else None
        if k < 0.70:
            n = rng.choice([0, 1, 2, 2, 3, 4])
            first = self.pick(lambda d: d[0] in ("scalar", "array"))
            if first is None:
                return None
            d0 = describe(self.m.regs[first])
            same = self.regs_where(lambda d: d == d0)
            xs = [first] + [rng.choice(same) if rng.random() < 0.85 else self.pick(lambda d: True) for _ in range(max(0, n - 1))]
            return self.do({"op": "arrayNew", "xs": xs[:n] if n else []})
        if k < 0.72:
            a, b = self.pick(lambda d: True), self.pick(lambda d: True)
            return self.do({"op": "tupleNew", "a": a, "b": b}) if None not in (a, b) else None
        if k < 0.75:
            xs = [self.pick(lambda d: d[0] in ("scalar", "array", "ntuple", "object")) for _ in range(rng.choice([0, 1, 2, 3, 4]))]
            return self.do({"op": "ntupleNew", "xs": xs}) if None not in xs else None
        if k < 0.78:
            keys = rng.sample(KEYS, rng.choice([1, 2, 3]))
            fs = [[kk, self.pick(lambda d: d[0] in ("scalar", "array", "ntuple", "object"))] for kk in keys]
            return self.do({"op": "objectNew", "fs": fs}) if all(f[1] is not None for f in fs) else None
        if k < 0.82:
            t = self.pick(lambda d: d[0] == "ntuple", anyval=False)
            if t is None:
                return None
            n = describe(self.m.regs[t])[1] if describe(self.m.regs[t])[0] == "ntuple" else 2
            return self.do({"op": "ntupleGet", "t": t, "i": str(rng.randint(-n - 2, n + 1))})
        if k < 0.85:
            o = self.pick(lambda d: d[0] == "object", anyval=False)
            if o is None:
                return None
            d = describe(self.m.regs[o])
            keys = (d[1] if d[0] == "object" else []) + ["missing"]
            return self.do({"op": "objectGet", "o": o, "key": rng.choice(keys)})
        if k < 0.89:
            a = self.pick(isarr, anyval=False)
            if a is None:
                return None
            sz = describe(self.m.regs[a])[1]
            same = self.regs_where(lambda d: d[0] == "array" and d[1] == sz)
            b = rng.choice(same) if rng.random() < 0.8 else self.pick(isarr, anyval=False)
            return self.do({"op": rng.choice(["zip", "zip", "innerProduct"]), "a": a, "b": b})
        if k < 0.91:
            a = self.pick(isarr, anyval=False)
            return self.do({"op": "unzip", "a": a}) if a is not None else None
        if k < 0.96:
            return self.use_fn()
        return self.define_fn()

    def fn_regs(self):
        return self.regs_where(lambda d: d[0] == "fn")

    def use_fn(self):
        rng = self.rng
        fs = self.fn_regs()
        if not fs:
            return self.define_fn()
        f = rng.choice(fs)
        _, ret, nparams = describe(self.m.regs[f])
        kind = rng.random()
        if kind < 0.4:
            args = [self.pick(lambda d: d[0] in ("scalar", "array")) for _ in range(nparams if rng.random() < 0.9 else nparams + 1)]
            return self.do({"op": "call", "f": f, "args": args}) if None not in args else None
        a = self.pick(lambda d: d[0] == "array", anyval=False)
        if a is None:
            return None
        if kind < 0.75:
            return self.do({"op": "map", "a": a, "f": f})
        init = self.scalar()
        return self.do({"op": "reduce", "a": a, "f": f, "init": init}) if init is not None else None

    def define_fn(self):
        rng = self.rng
        if len(self.cur) > self.max_depth:
            return None
        self.nfn += 1
        name = f"fn{self.nfn}"
        nparams = rng.choice([1, 1, 2, 2, 3])
        anns = []
        for _ in range(nparams):
            r = rng.random()
            if r < 0.72:
                anns.append(rng.choice(PUBSEC))
            elif r < 0.82:
                anns.append(rng.choice(["Integer", "UnsignedInteger", "Boolean"]))
            else:
                anns.append(["Array", rng.choice(PUBSEC)])
        params = [(f"p{i}", a) for i, a in enumerate(anns)]
        ret_ann = rng.choice(PUBSEC * 4 + ["Integer"])
        self.ncmd += 1
        self.dist["beginFn"] = self.dist.get("beginFn", 0) + 1

        def body(param_regs):
            sid = self.next_scope
            self.next_scope += 1
            self.cur.append(sid)
            self._sync()
            for _ in range(rng.randint(1, 6)):
                if self.ncmd < self.max_cmds + 10:
                    self.gen_one()
            # return a value of the declared class if there is one in scope (truthful annotation),
            # otherwise anything visible
            cands = self.regs_where(lambda d: d[0] == "scalar" and d[1] == ret_ann)
            if cands and rng.random() < 0.9:
                ret = cands[-1]
            else:
                live = self.regs_where(lambda d: d[0] in ("scalar", "array"))
                ret = rng.choice(live) if live else param_regs[0]
            self.cur.pop()
            return ret

        err = self.m.run_fn(name, params, ret_ann, body)
        self._sync()
        # parameters and inner registers belong to the function's scope
        return err

    def compile_now(self):
        rng = self.rng
        cands = [r for r in range(len(self.m.regs)) if self.scope[r] == 0 and self.m.regs[r] is not DEAD
                 and describe(self.m.regs[r])[0] in ("scalar", "array", "tuple", "ntuple", "object")]
        if not cands:
            return None
        n = min(len(cands), rng.choice([1, 1, 2, 3, 4]))
        outs = []
        for i in range(n):
            v = cands[-1 - min(int(rng.expovariate(0.3)), len(cands) - 1)]
            outs.append([v, f"out{i}" if rng.random() > 0.05 else "out0", rng.choice(self.parties)])
        self.dist["compile"] = self.dist.get("compile", 0) + 1
        return self.m.compile(outs)

    def program(self):
        rng = self.rng
        for i in range(rng.choice([1, 1, 2, 3])):
            self.do({"op": "party", "name": rng.choice(["P", "Q", "R", "alice"]) + str(i)})
            self.parties.append(len(self.m.regs) - 1)
        for _ in range(rng.randint(1, 4)):
            self.new_input()
        compiles = rng.choice([1, 1, 1, 2, 3])
        marks = sorted(rng.sample(range(3, self.max_cmds + 3), compiles - 1)) if compiles > 1 else []
        while self.ncmd < self.max_cmds:
            self.gen_one()
            if marks and self.ncmd >= marks[0]:
                marks.pop(0)
                self.compile_now()
        self.compile_now()
        return self.m


def generate(seed_tag, index, max_cmds=25, escapes=False):
    rng = R.make(f"{seed_tag}:{index}")
    reset_globals()
    g = Gen(rng, max_cmds=max_cmds, escapes=escapes)
    m = g.program()
    return m, g.dist
