"""Seeded generator of layer-B programs, driven *online* against the real implementation: each
command is executed on the real nada_dsl as soon as it is generated and operands are chosen by
looking at the real objects in the registers (so well-typed choices need no re-implementation of
the typing rules), 80 % fitting operands / 20 % arbitrary live values (the malformed stream)."""
from ..real.interp import Machine, DEAD, describe
from ..real.env import reset_globals
from . import rng as R

PUBSEC = ["PublicInteger", "PublicUnsignedInteger", "PublicBoolean", "SecretInteger", "SecretUnsignedInteger",
          "SecretBoolean"]
ALLSC = ["Integer", "UnsignedInteger", "Boolean"] + PUBSEC
BOPS = ["add", "sub", "mul", "div", "mod", "pow", "shl", "shr", "lt", "gt", "le", "ge", "eq", "ne", "and", "or", "xor"]
KEYS = ["x", "y", "z", "k0", "k1", "amount"]


# documentation strings are reproduced exactly: layout (indentation, blank lines, tabs), quotes, non-ASCII
DOCS = ["", "", "doc of @", "doc of @", "  padded @  ", "first line of @\n    indented second line\n", "\n\n@ after blank lines",
        "\ttab\tin @", "quote \" and \\ in @", "é—@ ✓", " ", "@\r\nwindows", "{@: \"json\"}"]

class Gen:
    def __init__(self, rng, max_cmds=25, max_depth=2, escapes=False):
        self.rng = rng
        self.m = Machine()
        self.max_cmds = max_cmds
        self.max_depth = max_depth
        self.escapes = escapes
        self.scope = []          # scope id of every register
        self.cur = [0]           # stack of open scope ids
        self.next_scope = 1
        self.ncmd = 0
        self.nin = 0
        self.nfn = 0
        self.dist = {}
        self.parties = []
        self.fninfo = {}
        self.hidden = set()

    # ---- bookkeeping --------------------------------------------------------------------------
    def _sync(self):
        while len(self.scope) < len(self.m.regs):
            self.scope.append(self.cur[-1])

    def _visible(self, r):
        if self.m.regs[r] is DEAD or r in self.hidden:
            return False
        s = self.scope[r]
        return s == 0 or s == self.cur[-1] or (self.escapes and s in self.cur)

    def regs_where(self, pred):
        return [r for r in range(len(self.m.regs)) if self._visible(r) and pred(describe(self.m.regs[r]))]

    def pick(self, pred, anyval=True):
        """80 %: a register satisfying pred; 20 %: any live Nada value (malformed stream)."""
        rng = self.rng
        good = self.regs_where(pred)
        if good and (rng.random() < 0.8 or not anyval):
            # prefer recent registers
            return good[-1 - min(int(rng.expovariate(0.35)), len(good) - 1)]
        if not anyval:
            return None
        anyv = self.regs_where(lambda d: d[0] in ("scalar", "array", "tuple", "ntuple", "object"))
        if anyv:
            return rng.choice(anyv)
        return good[0] if good else None

    def do(self, cmd):
        if cmd["op"] == "bin" and cmd["bop"] in ("shl", "shr", "pow") and None not in (cmd["a"], cmd["b"]):
            # keep literal exponents / shift counts small: CPython would otherwise compute forever
            va = getattr(self.m.regs[cmd["a"]], "value", None)
            vb = getattr(self.m.regs[cmd["b"]], "value", None)
            if (isinstance(vb, int) and not -2 <= vb <= 64) or (isinstance(va, int) and abs(va) > 2**70 and cmd["bop"] == "pow"):
                cmd = dict(cmd, bop="add")
        if any(v is None for k, v in cmd.items() if k in ("a", "b", "c", "r", "t", "o", "f", "init")):
            return None
        self.ncmd += 1
        self.dist[cmd["op"]] = self.dist.get(cmd["op"], 0) + 1
        err = self.m.exec(cmd)
        self._sync()
        if cmd["op"] == "arrayOf" and err is None:
            # `Array(x, size)` re-types the Input behind x: the scalar wrapper must not be used any more
            self.hidden.add(cmd["r"])
        return err

    # ---- command builders ---------------------------------------------------------------------
    def new_input(self, t=None, party=None):
        rng = self.rng
        p = party if party is not None else rng.choice(self.parties)
        self.nin += 1
        name = f"in{self.nin}" if rng.random() > 0.04 else f"in{rng.randint(1, max(1, self.nin))}"
        self.do({"op": "inputObj", "name": name, "doc": rng.choice(DOCS).replace("@", name), "party": p})
        r = len(self.m.regs) - 1
        self.do({"op": "wrap", "t": t or rng.choice(PUBSEC), "r": r})
        return len(self.m.regs) - 1

    def scalar(self, names=None):
        return self.pick(lambda d: d[0] == "scalar" and (names is None or d[1] in names))

    def gen_one(self):
        rng = self.rng
        k = rng.random()
        isarr = lambda d: d[0] == "array"
        if k < 0.03:
            return self.scenario()
        if k < 0.10:
            return self.new_input()
        if k < 0.17:
            # array input
            r = self.new_input(rng.choice(PUBSEC + ["SecretInteger", "SecretInteger", "PublicInteger"]))
            return self.do({"op": "arrayOf", "r": r, "size": rng.choice([1, 2, 3, 3, 3, 3, 3, 10, 0, -1, None])})
        if k < 0.22:
            base = rng.choice(["int", "int", "uint", "bool"])
            v = rng.choice([True, False]) if base == "bool" else str(R.big_int(rng, signed=(base == "int")))
            return self.do({"op": "lit", "base": base, "v": v})
        if k < 0.42:
            a = self.scalar()
            if a is None:
                return self.new_input()
            da = describe(self.m.regs[a])
            if da[0] != "scalar":
                return self.do({"op": "bin", "bop": rng.choice(BOPS), "a": a, "b": self.scalar() or a})
            # a second operand of the same class most of the time, otherwise any scalar
            same = self.regs_where(lambda d: d[0] == "scalar" and d[1].replace("Public", "").replace("Secret", "")
                                   == da[1].replace("Public", "").replace("Secret", ""))
            b = rng.choice(same) if same and rng.random() < 0.7 else self.scalar()
            bop = rng.choice(BOPS)
            if "Boolean" in da[1] and rng.random() < 0.7:
                bop = rng.choice(["and", "or", "xor", "eq", "ne"])
            if bop in ("shl", "shr", "pow") and rng.random() < 0.7:
                u = self.regs_where(lambda d: d[0] == "scalar" and d[1] in ("UnsignedInteger", "PublicUnsignedInteger"))
                if u:
                    b = rng.choice(u)
            if rng.random() < 0.5:
                a, b = b, a
            return self.do({"op": "bin", "bop": bop, "a": a, "b": b})
        if k < 0.47:
            return self.use_fn()
        if k < 0.50:
            a = self.scalar(["Boolean", "PublicBoolean", "SecretBoolean"])
            return self.do({"op": "invert", "a": a}) if a is not None else None
        if k < 0.53:
            a = self.scalar()
            return self.do({"op": "reveal", "a": a}) if a is not None else None
        if k < 0.55:
            a = self.scalar(["SecretInteger", "SecretUnsignedInteger"])
            b = self.scalar(["UnsignedInteger", "PublicUnsignedInteger"])
            return self.do({"op": "truncPr", "a": a, "b": b}) if None not in (a, b) else None
        if k < 0.57:
            a, b = self.scalar(PUBSEC), self.scalar(PUBSEC)
            return self.do({"op": "publicEquals", "a": a, "b": b}) if None not in (a, b) else None
        if k < 0.62:
            c = self.scalar(["PublicBoolean", "SecretBoolean", "Boolean"])
            a = self.scalar([n for n in ALLSC if "Boolean" not in n])
            b = self.scalar([n for n in ALLSC if "Boolean" not in n])
            return self.do({"op": "ifElse", "c": c, "a": a, "b": b}) if None not in (a, b, c) else None
        if k < 0.64:
            return self.do({"op": "random", "t": rng.choice(PUBSEC[3:] * 3 + ALLSC)})
        if k < 0.66:
            a = self.scalar([n for n in ALLSC if "Boolean" not in n])
            return self.do({"op": "radd", "k": str(rng.choice([0, 1, 5, 2**64])), "a": a}) if a is not None else None
        if k < 0.70:
            n = rng.choice([0, 1, 2, 2, 3, 4])
            first = self.pick(lambda d: d[0] in ("scalar", "array"))
            if first is None:
                return None
            d0 = describe(self.m.regs[first])
            same = self.regs_where(lambda d: d == d0)
            xs = [first] + [rng.choice(same) if rng.random() < 0.85 else self.pick(lambda d: True) for _ in range(max(0, n - 1))]
            return self.do({"op": "arrayNew", "xs": xs[:n] if n else []})
        if k < 0.72:
            a, b = self.pick(lambda d: True), self.pick(lambda d: True)
            return self.do({"op": "tupleNew", "a": a, "b": b}) if None not in (a, b) else None
        if k < 0.75:
            xs = [self.pick(lambda d: d[0] in ("scalar", "array", "ntuple", "object")) for _ in range(rng.choice([0, 1, 2, 3, 4]))]
            return self.do({"op": "ntupleNew", "xs": xs}) if None not in xs else None
        if k < 0.78:
            keys = rng.sample(KEYS, rng.choice([1, 2, 3]))
            fs = [[kk, self.pick(lambda d: d[0] in ("scalar", "array", "ntuple", "object"))] for kk in keys]
            return self.do({"op": "objectNew", "fs": fs}) if all(f[1] is not None for f in fs) else None
        if k < 0.82:
            t = self.pick(lambda d: d[0] == "ntuple", anyval=False)
            if t is None:
                return None
            n = describe(self.m.regs[t])[1] if describe(self.m.regs[t])[0] == "ntuple" else 2
            return self.do({"op": "ntupleGet", "t": t, "i": str(rng.randint(-n - 2, n + 1))})
        if k < 0.85:
            o = self.pick(lambda d: d[0] == "object", anyval=False)
            if o is None:
                return None
            d = describe(self.m.regs[o])
            keys = (d[1] if d[0] == "object" else []) + ["missing"]
            return self.do({"op": "objectGet", "o": o, "key": rng.choice(keys)})
        if k < 0.89:
            a = self.pick(isarr, anyval=False)
            if a is None:
                return None
            sz = describe(self.m.regs[a])[1]
            same = self.regs_where(lambda d: d[0] == "array" and d[1] == sz)
            if rng.random() < 0.5:
                tup = self.regs_where(lambda d: d[0] == "array" and d[2] == "Tuple")
                if tup:
                    return self.do({"op": "unzip", "a": rng.choice(tup)})
            b = rng.choice(same) if rng.random() < 0.8 else self.pick(isarr, anyval=False)
            return self.do({"op": rng.choice(["zip", "zip", "innerProduct"]), "a": a, "b": b})
        if k < 0.91:
            a = self.pick(isarr, anyval=False)
            return self.do({"op": "unzip", "a": a}) if a is not None else None
        if k < 0.96:
            return self.use_fn()
        return self.define_fn()

    def fn_regs(self):
        return self.regs_where(lambda d: d[0] == "fn")

    def use_fn(self):
        rng = self.rng
        kind = rng.random()
        arrays = self.regs_where(lambda d: d[0] == "array" and d[2] in ALLSC)
        if kind < 0.35 or not arrays:
            # call: a function and arguments of its parameter classes (90 %) or anything (10 %)
            fs = self.fn_regs()
            if not fs:
                return self.define_fn()
            f = rng.choice(fs)
            params, _ = self.fninfo.get(f, ([], None))
            args = []
            for _, ann in params:
                fit = self.regs_where(lambda d, ann=ann: (d[0] == "scalar" and d[1] == ann) if isinstance(ann, str)
                                      else (d[0] == "array" and d[2] == ann[1]))
                args.append(rng.choice(fit) if fit and rng.random() < 0.9 else self.pick(lambda d: d[0] in ("scalar", "array")))
            if rng.random() < 0.07:
                args = args[:-1] if rng.random() < 0.5 else args + args[:1]
            if None in args:
                return None
            cmd = {"op": "call", "f": f, "args": args}
            if params and len(args) == len(params) and rng.random() < 0.3:
                # some of the trailing arguments by keyword, written in any order (sometimes an unknown / repeated parameter)
                npos = rng.randint(0, len(args) - 1)
                kw = [[params[i][0], args[i]] for i in range(npos, len(args))]
                rng.shuffle(kw)
                if rng.random() < 0.1:
                    kw.append([rng.choice(["nosuch", params[0][0]]), args[0]])
                    if len({n for n, _ in kw}) != len(kw):
                        kw.pop()
                cmd = {"op": "call", "f": f, "args": args[:npos], "kw": kw}
            return self.do(cmd)
        a = rng.choice(arrays)
        elem = describe(self.m.regs[a])[2]
        if kind < 0.7:
            fit = [f for f in self.fn_regs() if len(self.fninfo.get(f, ([], 0))[0]) == 1 and self.fninfo[f][0][0][1] == elem]
            if not fit and rng.random() < 0.8:
                self.define_fn(anns=[elem])
                fit = [f for f in self.fn_regs() if len(self.fninfo.get(f, ([], 0))[0]) == 1 and self.fninfo[f][0][0][1] == elem]
            f = rng.choice(fit) if fit and rng.random() < 0.9 else (rng.choice(self.fn_regs()) if self.fn_regs() else None)
            return self.do({"op": "map", "a": a, "f": f}) if f is not None else None
        # reduce: f(acc: R, x: elem) -> R with an initial value of class R
        fit = [f for f in self.fn_regs() if len(self.fninfo.get(f, ([], 0))[0]) == 2 and self.fninfo[f][0][1][1] == elem
               and self.fninfo[f][0][0][1] == self.fninfo[f][1]]
        if not fit and rng.random() < 0.8:
            acc = rng.choice([elem, "Secret" + elem.replace("Public", "").replace("Secret", "")])
            self.define_fn(anns=[acc, elem], ret=acc)
            fit = [f for f in self.fn_regs() if len(self.fninfo.get(f, ([], 0))[0]) == 2 and self.fninfo[f][0][1][1] == elem
                   and self.fninfo[f][0][0][1] == self.fninfo[f][1]]
        f = rng.choice(fit) if fit and rng.random() < 0.9 else (rng.choice(self.fn_regs()) if self.fn_regs() else None)
        if f is None:
            return None
        want = self.fninfo.get(f, ([], None))[1]
        inits = self.regs_where(lambda d: d[0] == "scalar" and d[1] == want)
        init = rng.choice(inits) if inits and rng.random() < 0.9 else self.scalar()
        if init is None or (not inits and want in PUBSEC and rng.random() < 0.8):
            init = self.new_input(want if want in PUBSEC else None)
        return self.do({"op": "reduce", "a": a, "f": f, "init": init})

    def define_fn(self, anns=None, ret=None, plan=None, plain=None, name=None):
        rng = self.rng
        if len(self.cur) > self.max_depth:
            return None
        self.nfn += 1
        # function names are not unique in general (lambdas, same-named helpers in different scopes)
        name = name or (f"fn{self.nfn}" if rng.random() > 0.12 else rng.choice(["helper", "_lambda_"]))
        if anns is None:
            anns = []
            for _ in range(rng.choice([1, 1, 2, 2, 3])):
                r = rng.random()
                if r < 0.72:
                    anns.append(rng.choice(PUBSEC))
                elif r < 0.82:
                    anns.append(rng.choice(["Integer", "UnsignedInteger", "Boolean"]))
                else:
                    anns.append(["Array", rng.choice(PUBSEC)])
        params = [(f"p{i}", a) for i, a in enumerate(anns)]
        ret_ann = ret or rng.choice(PUBSEC * 5 + ["Integer"])
        if ret is None and isinstance(anns[0], str) and rng.random() < 0.5:
            # a return class the parameters can produce
            ret_ann = anns[0] if anns[0] in PUBSEC else ret_ann
        self.ncmd += 1
        self.dist["beginFn"] = self.dist.get("beginFn", 0) + 1

        def body(param_regs):
            sid = self.next_scope
            self.next_scope += 1
            self.cur.append(sid)
            self._sync()
            if plan is not None:
                planned = plan(param_regs)
                if planned is not None and self.m.regs[planned] is not DEAD:
                    self.cur.pop()
                    return planned
            for _ in range(rng.randint(1, 6)):
                if self.ncmd < self.max_cmds + 10:
                    self.gen_one()
            # return a value of the declared class (truthful annotation) 90 % of the time
            cands = [r for r in self.regs_where(lambda d: d[0] == "scalar" and d[1] == ret_ann) if self.scope[r] == sid]
            if not cands and ret_ann in PUBSEC and rng.random() < 0.9:
                # build one from a parameter: (param op fresh input) has the class of the more secret operand
                base = ret_ann.replace("Public", "").replace("Secret", "")
                fresh = self.new_input(ret_ann)
                mates = [r for r in param_regs if describe(self.m.regs[r])[0] == "scalar"
                         and describe(self.m.regs[r])[1].replace("Public", "").replace("Secret", "") == base
                         and not (describe(self.m.regs[r])[1].startswith("Secret") and not ret_ann.startswith("Secret"))]
                if mates:
                    self.do({"op": "bin", "bop": "xor" if base == "Boolean" else rng.choice(["add", "sub", "mul"]),
                             "a": rng.choice(mates), "b": fresh})
                    cands = [len(self.m.regs) - 1] if self.m.regs[-1] is not DEAD else [fresh]
                else:
                    cands = [fresh]
            if cands and rng.random() < 0.93:
                ret_reg = cands[-1]
            else:
                live = self.regs_where(lambda d: d[0] in ("scalar", "array"))
                ret_reg = rng.choice(live) if live else param_regs[0]
            self.cur.pop()
            return ret_reg

        err = self.m.run_fn(name, params, ret_ann, body, plain=plain)
        self._sync()
        if err is None:
            self.fninfo[len(self.m.regs) - 1] = (params, ret_ann)
        return err

    # ---- structured scenarios (shapes that random choice rarely produces) ----------------------------
    def last(self):
        return len(self.m.regs) - 1

    SCENARIOS = ["diamond", "captured", "chain", "sites", "zipmap", "nestedzip", "sharedlit", "matrix",
                 "ntupleidx", "objkeys", "zipsizes", "arraynewmix", "samelit", "failedcompile", "triangle", "kwcall", "closureloop", "litfold", "paramzip", "objorder",
                 "mapinner", "badret", "nestedparam", "twoarrparams", "matrices", "nestedacc", "zerolit", "outparties", "arrayofop", "litparams", "literalout", "dupinputs", "pubeq", "twiceinbody", "capturedout"]

    def scenario(self, k=None):
        rng = self.rng
        if len(self.cur) > 1:
            return None
        k = k or rng.choice(self.SCENARIOS + ["diamond", "zipmap"])
        self.dist["scenario:" + k] = self.dist.get("scenario:" + k, 0) + 1
        T = rng.choice(["SecretInteger", "SecretInteger", "PublicInteger", "PublicInteger", "SecretUnsignedInteger", "PublicBoolean"])
        op = lambda: rng.choice(["add", "sub", "mul"])  # noqa: E731

        def fn1(ret_of):
            """define f(x: T) -> T whose body is ret_of(param regs)"""
            self.define_fn(anns=[T], ret=T, plan=ret_of)
            return self.last() if describe(self.m.regs[self.last()])[0] == "fn" else None

        if k in ("diamond", "chain", "sites"):
            def helper_body(ps):
                self.do({"op": "bin", "bop": op(), "a": ps[0], "b": ps[0]})
                return self.last()
            h = fn1(helper_body)
            if h is None:
                return None

            def user_body(ps, h=h):
                self.do({"op": "call", "f": h, "args": [ps[0]]})
                c = self.last()
                self.do({"op": "bin", "bop": op(), "a": c, "b": ps[0]})
                return self.last()
            f1 = fn1(user_body)
            if k == "chain":
                def top_body(ps, f1=f1):
                    self.do({"op": "call", "f": f1, "args": [ps[0]]})
                    return self.last()
                f2 = fn1(top_body) if f1 is not None else None
                users = [f2]
            elif k == "diamond":
                users = [f1, fn1(user_body)]
                if rng.random() < 0.3:
                    users.append(fn1(user_body))
            else:
                users = [h, h, f1]
            x = self.new_input(T)
            for f in users:
                if f is None:
                    continue
                if rng.random() < 0.6:
                    self.do({"op": "call", "f": f, "args": [x]})
                    x = self.last() if self.m.regs[self.last()] is not DEAD else x
                else:
                    a = self.new_input(T)
                    self.do({"op": "arrayOf", "r": a, "size": 3})
                    arr = self.last()
                    self.do({"op": "map", "a": arr, "f": f})
            return None
        if k == "arrayofop":
            # the legacy constructor `Array(value, size=n)` on values that are not inputs: an operation result, a function
            # parameter, a literal (only an input's record may be declared an array; anything else is rejected)
            x = self.new_input(T)
            self.do({"op": "bin", "bop": "add" if "Boolean" not in T else "xor", "a": x, "b": x})
            y = self.last()
            self.do({"op": "arrayOf", "r": y, "size": 3})
            made = [y] if self.m.regs[y] is not DEAD else []
            if self.m.regs[self.last()] is not DEAD:
                made.append(self.last())

            def body(ps):
                self.do({"op": "arrayOf", "r": ps[0], "size": 2})
                self.do({"op": "bin", "bop": "add" if "Boolean" not in T else "xor", "a": ps[0], "b": ps[0]})
                return self.last()
            f = fn1(body)
            if f is not None:
                self.do({"op": "call", "f": f, "args": [x]})
                if self.m.regs[self.last()] is not DEAD:
                    made.append(self.last())
            self.compile_now(prefer=made[::-1][:3])
            return None
        if k == "outparties":
            # parties that only receive outputs (two or three of them), one of which also owns an input that is referenced
            # only from inside a function body; the same value is sent to several of them
            recv = []
            for i in range(rng.choice([2, 3])):
                self.do({"op": "party", "name": f"Recv{i}"})
                recv.append(self.last())
            owner = rng.choice(recv)
            cap = self.new_input(T, party=owner)

            def body(ps, cap=cap):
                self.do({"op": "bin", "bop": op(), "a": ps[0], "b": cap})
                return self.last()
            f = fn1(body)
            if f is None:
                return None
            a = self.new_input(T)
            self.do({"op": "arrayOf", "r": a, "size": rng.choice([2, 3])})
            self.do({"op": "map", "a": self.last(), "f": f})
            mapped = self.last()
            if self.m.regs[mapped] is DEAD:
                return None
            b = self.new_input(T)
            outs = [[mapped, "out0", recv[0]], [b, "out1", recv[1]]]
            if len(recv) > 2:
                outs.append([mapped, "out2", recv[2]])
            rng.shuffle(outs)
            self.dist["compile"] = self.dist.get("compile", 0) + 1
            self.m.compile(outs)
            return None
        if k == "captured":
            # an input that is referenced only from inside a function body, owned by its own party
            self.do({"op": "party", "name": "Captor" + str(rng.randint(0, 3))})
            p = self.last()
            cap = self.new_input(T, party=p)

            withlit = T in ("SecretInteger", "PublicInteger") and rng.random() < 0.6

            def body(ps, cap=cap):
                self.do({"op": "bin", "bop": op(), "a": ps[0], "b": cap})
                if withlit:
                    # a literal that only the function body mentions
                    r0 = self.last()
                    self.do({"op": "lit", "base": "int", "v": str(rng.choice([5, 41, 2**65]))})
                    self.do({"op": "bin", "bop": "add", "a": r0, "b": self.last()})
                return self.last()
            f = fn1(body)
            if f is None:
                return None
            a = self.new_input(T)
            self.do({"op": "arrayOf", "r": a, "size": rng.choice([2, 3])})
            self.do({"op": "map", "a": self.last(), "f": f})
            mapped = self.last()
            if self.m.regs[mapped] is not DEAD and rng.random() < 0.6:
                # the same function object is reached by two compilations of the process: what its body needs (the captured
                # input, its party, the literal) has to be in the tables of each
                self.m.compile([[mapped, "out0", self.parties[0]]])
                self.m.compile([[mapped, "again", self.parties[0]], [a, "plain", self.parties[0]]])
            return None
        if k in ("zipmap", "nestedzip", "matrix"):
            U = rng.choice([t for t in PUBSEC if t != T])
            a = self.new_input(T)
            self.do({"op": "arrayOf", "r": a, "size": 3})
            arr1 = self.last()
            b = self.new_input(rng.choice([T, U]))
            self.do({"op": "arrayOf", "r": b, "size": 3})
            arr2 = self.last()
            if k == "zipmap":
                elem2 = describe(self.m.regs[arr2])[2]
                R2 = rng.choice([t for t in PUBSEC if t != T])
                self.define_fn(anns=[elem2], ret=R2)
                f = self.last()
                if describe(self.m.regs[f])[0] != "fn":
                    return None
                self.do({"op": "map", "a": arr2, "f": f})
                mapped = self.last()
                if rng.random() < 0.5:
                    self.do({"op": "zip", "a": arr1, "b": mapped})
                else:
                    self.do({"op": "zip", "a": mapped, "b": arr1})
                if rng.random() < 0.5:
                    self.do({"op": "unzip", "a": self.last()})
                return None
            if k == "nestedzip":
                self.do({"op": "zip", "a": arr1, "b": arr2})
                z = self.last()
                c = self.new_input(rng.choice(PUBSEC))
                self.do({"op": "arrayOf", "r": c, "size": 3})
                self.do({"op": "zip", "a": z, "b": self.last()} if rng.random() < 0.5 else {"op": "zip", "a": self.last(), "b": z})
                self.do({"op": "unzip", "a": self.last()})
                return None
            # matrix: arrays of arrays, zipped and unzipped
            self.do({"op": "arrayNew", "xs": [arr1, arr1]})
            m1 = self.last()
            self.do({"op": "arrayNew", "xs": [arr2, arr2]})
            m2 = self.last()
            self.do({"op": "zip", "a": m1, "b": m2})
            self.do({"op": "unzip", "a": self.last()})
            return None
        if k == "ntupleidx":
            # every index from -n-3 to n+3 on an n-tuple of mixed members (literal, public, secret, array, n-tuple)
            n = rng.choice([1, 2, 3, 4])
            members = []
            for _ in range(n):
                kind = rng.random()
                if kind < 0.2:
                    self.do({"op": "lit", "base": rng.choice(["int", "uint"]), "v": str(rng.randint(0, 9))})
                    members.append(self.last())
                elif kind < 0.75:
                    members.append(self.new_input())
                elif kind < 0.9:
                    a = self.new_input()
                    self.do({"op": "arrayOf", "r": a, "size": rng.choice([1, 2, 3])})
                    members.append(self.last())
                else:
                    a, b = self.new_input(), self.new_input()
                    self.do({"op": "ntupleNew", "xs": [a, b]})
                    members.append(self.last())
            self.do({"op": "ntupleNew", "xs": members})
            t = self.last()
            idx = list(range(-n - 3, n + 4))
            rng.shuffle(idx)
            for i in idx:
                self.do({"op": "ntupleGet", "t": t, "i": str(i)})
            return None
        if k == "objkeys":
            keys = rng.sample(KEYS, rng.choice([1, 2, 3]))
            fs = []
            for kk in keys:
                if rng.random() < 0.2:
                    self.do({"op": "lit", "base": "int", "v": str(rng.randint(0, 9))})
                    fs.append([kk, self.last()])
                elif rng.random() < 0.8:
                    fs.append([kk, self.new_input()])
                else:
                    a = self.new_input()
                    self.do({"op": "arrayOf", "r": a, "size": 2})
                    fs.append([kk, self.last()])
            self.do({"op": "objectNew", "fs": fs})
            o = self.last()
            for kk in keys + ["missing", "undeclared", rng.choice(KEYS)]:
                self.do({"op": "objectGet", "o": o, "key": kk})
            return None
        if k == "zipsizes":
            # zip / inner_product over all pairs of a few arrays of different sizes and element types
            arrs = []
            for sz in rng.sample([1, 2, 3, 4], 3):
                a = self.new_input(rng.choice(["SecretInteger", "PublicInteger", "SecretUnsignedInteger", "SecretBoolean", "PublicBoolean"]))
                self.do({"op": "arrayOf", "r": a, "size": sz})
                arrs.append(self.last())
            a = self.new_input(rng.choice(PUBSEC))
            self.do({"op": "arrayOf", "r": a, "size": describe(self.m.regs[arrs[0]])[1]})
            arrs.append(self.last())
            made = []
            for x in arrs:
                for y in arrs:
                    if rng.random() < 0.6:
                        self.do({"op": rng.choice(["zip", "innerProduct"]), "a": x, "b": y})
                        if self.m.regs[self.last()] is not DEAD:
                            made.append(self.last())
                        if describe(self.m.regs[self.last()])[0] == "array" and rng.random() < 0.5:
                            self.do({"op": "unzip", "a": self.last()})
                            if self.m.regs[self.last()] is not DEAD:
                                made.append(self.last())
            # arrays of arrays: the same inner size under different outer sizes (2 x k against 3 x k), and the reverse
            k_in = rng.choice([2, 3])
            row_src = self.new_input("SecretInteger")
            self.do({"op": "arrayOf", "r": row_src, "size": k_in})
            row = self.last()
            row_src2 = self.new_input("SecretInteger")
            self.do({"op": "arrayOf", "r": row_src2, "size": k_in + 1})
            row_b = self.last()
            nested = {}
            for tag, rows in (("2xk", [row, row]), ("3xk", [row, row, row]), ("2xk'", [row_b, row_b])):
                self.do({"op": "arrayNew", "xs": rows})
                if self.m.regs[self.last()] is not DEAD:
                    nested[tag] = self.last()
            for x, y in (("2xk", "3xk"), ("3xk", "2xk"), ("2xk", "2xk'"), ("2xk", "2xk")):
                if x in nested and y in nested:
                    self.do({"op": "zip", "a": nested[x], "b": nested[y]})
                    if self.m.regs[self.last()] is not DEAD:
                        made.insert(0, self.last())
            self.compile_now(prefer=made[:4])
            rng.shuffle(made)
            self.compile_now(prefer=made[:4])
            self.compile_now(prefer=made[4:8])
            return None
        if k == "arraynewmix":
            xs = [self.new_input(T) for _ in range(rng.choice([1, 2, 3]))]
            self.do({"op": "arrayNew", "xs": xs})
            self.do({"op": "arrayNew", "xs": []})
            odd = self.new_input(rng.choice([t for t in PUBSEC if t != T]))
            self.do({"op": "arrayNew", "xs": xs + [odd]})
            a = self.new_input(T)
            self.do({"op": "arrayOf", "r": a, "size": 2})
            a2 = self.last()
            b = self.new_input(T)
            self.do({"op": "arrayOf", "r": b, "size": rng.choice([2, 3])})
            self.do({"op": "arrayNew", "xs": [a2, self.last()]})
            self.do({"op": "arrayNew", "xs": [a2, a2, a2]})
            good = self.last()
            # mixes whose odd element sits at every position of a longer list (pairs, thirds, the last one)
            pub, sec = self.new_input("PublicInteger"), self.new_input("SecretInteger")
            made = []
            for pattern in rng.sample(["ppS", "ppSS", "ppppS", "pSp", "Spp", "pS", "pppS"], 4):
                self.do({"op": "arrayNew", "xs": [pub if ch == "p" else sec for ch in pattern]})
                if self.m.regs[self.last()] is not DEAD:
                    made.append(self.last())
            # n-tuples whose member lists are a proper prefix of one another, objects with one more field
            t1, t2, t3 = self.new_input(T), self.new_input(T), self.new_input(T)
            self.do({"op": "ntupleNew", "xs": [t1, t2]})
            pair = self.last()
            self.do({"op": "ntupleNew", "xs": [t1, t2, t3]})
            triple = self.last()
            self.do({"op": "ntupleNew", "xs": [t2, t1]})
            pair2 = self.last()
            for xs in ([pair, triple], [triple, pair], [pair, pair2], [pair, pair2, triple]):
                self.do({"op": "arrayNew", "xs": xs})
                if self.m.regs[self.last()] is not DEAD:
                    made.append(self.last())
            # an array of exactly one element that is itself a sequence-like value (an n-tuple of same-typed members, a one-row
            # array, an object): one element, of that compound type — and read back
            self.do({"op": "objectNew", "fs": [["only", t1]]})
            single_obj = self.last()
            for one in (pair, triple, single_obj, a2):
                self.do({"op": "arrayNew", "xs": [one]})
                if self.m.regs[self.last()] is not DEAD:
                    made.insert(0, self.last())
            self.do({"op": "objectNew", "fs": [["x", t1], ["y", t2]]})
            o2 = self.last()
            self.do({"op": "objectNew", "fs": [["x", t1], ["y", t2], ["z", t3]]})
            self.do({"op": "arrayNew", "xs": [o2, self.last()]})
            if self.m.regs[self.last()] is not DEAD:
                made.append(self.last())
            # rows that are results of `map` (their element type is held as a class): two functions with different return types
            # over one array, and two with the same
            srcT = rng.choice(["SecretInteger", "PublicInteger"])
            otherT = "PublicInteger" if srcT == "SecretInteger" else "SecretInteger"
            base = self.new_input(srcT)
            self.do({"op": "arrayOf", "r": base, "size": 3})
            rows_of = self.last()
            fns = []
            for ret in (srcT, otherT, srcT):
                self.define_fn(anns=[srcT], ret=ret)
                fns.append(self.last() if describe(self.m.regs[self.last()])[0] == "fn" else None)
            mapped = []
            for f in fns:
                if f is not None:
                    self.do({"op": "map", "a": rows_of, "f": f})
                    mapped.append(self.last() if self.m.regs[self.last()] is not DEAD else None)
                else:
                    mapped.append(None)
            for pair in ((0, 1), (1, 0), (0, 2)):
                if mapped[pair[0]] is not None and mapped[pair[1]] is not None:
                    self.do({"op": "arrayNew", "xs": [mapped[pair[0]], mapped[pair[1]]]})
                    if self.m.regs[self.last()] is not DEAD:
                        made.append(self.last())
            self.compile_now(prefer=(made[::-1] + [good])[:4])
            return None
        if k == "samelit":
            # one value written at several literal types (and twice at one type), each kept from folding by a
            # non-literal operand; values that collide under Python's hash() / differ only in type
            v = rng.choice([1, 0, 7, 2**61, 2**61 - 1, 2**64])
            xi, xu = self.new_input("SecretInteger"), self.new_input("SecretUnsignedInteger")
            outs = []
            for base, x in (("int", xi), ("uint", xu), ("int", xi)):
                self.do({"op": "lit", "base": base, "v": str(v)})
                self.do({"op": "bin", "bop": op(), "a": x, "b": self.last()})
                outs.append(self.last())
            for w in (v + 2**61 - 1, -1, -2):
                self.do({"op": "lit", "base": "int", "v": str(w)})
                self.do({"op": "bin", "bop": "add", "a": xi, "b": self.last()})
                outs.append(self.last())
            self.do({"op": "lit", "base": "bool", "v": bool(v % 2)})
            xb = self.new_input("SecretBoolean")
            self.do({"op": "bin", "bop": "xor", "a": xb, "b": self.last()})
            outs.append(self.last())
            rng.shuffle(outs)
            if rng.random() < 0.5:
                # every one of them delivered (the first literal of the program written again, then new ones)
                self.dist["compile"] = self.dist.get("compile", 0) + 1
                self.m.compile([[r, f"out{i}", rng.choice(self.parties)] for i, r in enumerate(outs) if self.m.regs[r] is not DEAD])
                return None
            self.compile_now(prefer=outs[:4])
            return None
        if k == "dupinputs":
            # two different inputs under one name, in every position: same party / another party, the duplicate being that
            # party's first or a later input, met in the main body, in one output or in two, or only inside a function body
            self.do({"op": "party", "name": "Owner"})
            p1 = self.last()
            self.do({"op": "party", "name": "Other"})
            p2 = self.last()
            shape = rng.choice(["same-party", "other-party-first", "other-party-later", "in-function", "two-outputs"])
            self.do({"op": "inputObj", "name": "shared_name", "doc": "", "party": p1})
            self.do({"op": "wrap", "t": "SecretInteger", "r": self.last()})
            a = self.last()
            if shape == "other-party-later":
                self.do({"op": "inputObj", "name": "other_first", "doc": "", "party": p2})
                self.do({"op": "wrap", "t": "SecretInteger", "r": self.last()})
                a2 = self.last()
                self.do({"op": "bin", "bop": "add", "a": a, "b": a2})
                a = self.last()
            self.do({"op": "inputObj", "name": "shared_name", "doc": "", "party": p1 if shape == "same-party" else p2})
            self.do({"op": "wrap", "t": "SecretInteger", "r": self.last()})
            b = self.last()
            if shape == "in-function":
                def body(ps, b=b):
                    self.do({"op": "bin", "bop": "mul", "a": ps[0], "b": b})
                    return self.last()
                self.define_fn(anns=["SecretInteger"], ret="SecretInteger", plan=body)
                f = self.last() if describe(self.m.regs[self.last()])[0] == "fn" else None
                if f is None:
                    return None
                self.do({"op": "call", "f": f, "args": [a]})
                outs = [[self.last(), "out0", p1]]
            elif shape == "two-outputs":
                outs = [[a, "out0", p1], [b, "out1", p2]]
            else:
                self.do({"op": "bin", "bop": "add", "a": a, "b": b})
                outs = [[self.last(), "out0", p1]]
            self.dist["compile"] = self.dist.get("compile", 0) + 1
            self.m.compile(outs)
            # ... and a legal program afterwards
            y = self.new_input("SecretInteger", party=p2)
            self.m.compile([[y, "out0", p1]])
            return None
        if k == "pubeq":
            # public_equals over every pair of secrecy modes (public receiver with a secret argument too), integers and
            # unsigned integers; every result delivered, and one used as a condition
            made = []
            for base in rng.sample(["Integer", "UnsignedInteger"], 2):
                vals = {m: self.new_input(m + base) for m in ("Public", "Secret")}
                for x in ("Public", "Secret"):
                    for y in ("Public", "Secret"):
                        self.do({"op": "publicEquals", "a": vals[x], "b": vals[y]})
                        if self.m.regs[self.last()] is not DEAD:
                            made.append(self.last())
                            if rng.random() < 0.4:
                                self.do({"op": "ifElse", "c": self.last(), "a": vals["Public"], "b": vals["Public"]})
                                if self.m.regs[self.last()] is not DEAD:
                                    made.append(self.last())
            rng.shuffle(made)
            self.dist["compile"] = self.dist.get("compile", 0) + 1
            self.m.compile([[r, f"out{i}", rng.choice(self.parties)] for i, r in enumerate(made[:6])])
            return None
        if k == "twiceinbody":
            # a helper function that only another function's body uses, at two or more sites there (two calls; a map and a reduce)
            def helper_body(ps):
                self.do({"op": "bin", "bop": op(), "a": ps[0], "b": ps[0]})
                return self.last()
            h = fn1(helper_body)
            if h is None:
                return None

            def user_body(ps, h=h):
                self.do({"op": "call", "f": h, "args": [ps[0]]})
                c1 = self.last()
                self.do({"op": "call", "f": h, "args": [c1 if self.m.regs[c1] is not DEAD else ps[0]]})
                c2 = self.last()
                self.do({"op": "bin", "bop": op(), "a": c1, "b": c2})
                return self.last()
            f1 = fn1(user_body)
            if f1 is None:
                return None
            x = self.new_input(T)
            self.do({"op": "call", "f": f1, "args": [x]})
            called = self.last()
            a = self.new_input(T)
            self.do({"op": "arrayOf", "r": a, "size": 3})
            self.do({"op": "map", "a": self.last(), "f": f1})
            outs = [r for r in (called, self.last()) if self.m.regs[r] is not DEAD]
            self.dist["compile"] = self.dist.get("compile", 0) + 1
            self.m.compile([[r, f"out{i}", self.parties[0]] for i, r in enumerate(outs)])
            return None
        if k == "capturedout":
            # a value computed outside a function, used inside its body *and* delivered as an output of its own (before or
            # after the output that reaches the function)
            x = self.new_input(T)
            self.do({"op": "bin", "bop": op(), "a": x, "b": x})
            factor = self.last()

            def body(ps, factor=factor):
                self.do({"op": "bin", "bop": op(), "a": ps[0], "b": factor})
                return self.last()
            f = fn1(body)
            if f is None or self.m.regs[factor] is DEAD:
                return None
            y = self.new_input(T)
            self.do({"op": "call", "f": f, "args": [y]})
            called = self.last()
            if self.m.regs[called] is DEAD:
                return None
            outs = [[factor, "factor", self.parties[0]], [called, "scaled", self.parties[0]]]
            if rng.random() < 0.5:
                outs.reverse()
            self.dist["compile"] = self.dist.get("compile", 0) + 1
            self.m.compile(outs)
            return None
        if k == "litparams":
            # a function with several literal-typed parameters of one type next to a non-literal one, each used at its own
            # place in the body (never literal with literal: that folds, F-C04-1), called with different literal values
            S = rng.choice(["SecretInteger", "PublicInteger"])
            nlit = rng.choice([2, 2, 3])

            packed = rng.choice([None, None, "ntuple", "object"])

            def body(ps):
                if packed == "ntuple":
                    self.do({"op": "ntupleNew", "xs": list(ps)})
                    t = self.last()
                    got = []
                    for i in range(len(ps)):
                        self.do({"op": "ntupleGet", "t": t, "i": i})
                        got.append(self.last())
                    if all(self.m.regs[g] is not DEAD for g in got):
                        ps = got
                elif packed == "object":
                    self.do({"op": "objectNew", "fs": [[f"f{i}", r] for i, r in enumerate(ps)]})
                    o = self.last()
                    got = []
                    for i in range(len(ps)):
                        self.do({"op": "objectGet", "o": o, "key": f"f{i}"})
                        got.append(self.last())
                    if all(self.m.regs[g] is not DEAD for g in got):
                        ps = got
                acc = ps[0]
                for bop, lp in zip(["sub", "mul", "add"], ps[1:]):
                    self.do({"op": "bin", "bop": bop, "a": acc, "b": lp} if rng.random() < 0.7 else {"op": "bin", "bop": bop, "a": lp, "b": acc})
                    acc = self.last()
                return acc
            self.define_fn(anns=[S] + ["Integer"] * nlit, ret=S, plan=body)
            f = self.last() if describe(self.m.regs[self.last()])[0] == "fn" else None
            if f is None:
                return None
            x = self.new_input(S)
            args = [x]
            for v in rng.sample([2, 5, 11, -3, 0], nlit):
                self.do({"op": "lit", "base": "int", "v": str(v)})
                args.append(self.last())
            self.do({"op": "call", "f": f, "args": args})
            called = self.last()
            if self.m.regs[called] is DEAD:
                return None
            self.compile_now(prefer=[called])
            return None
        if k == "literalout":
            # outputs that are literals themselves, next to equal literals written earlier / later inside expressions, call
            # arguments and array members that are delivered too
            v = rng.choice([1, 0, 7, -4, 2**64])
            x = self.new_input("SecretInteger")
            outs = []
            order = rng.sample(["expr", "direct", "direct2", "array"], 4)
            for what in order:
                self.do({"op": "lit", "base": "int", "v": str(v)})
                l = self.last()
                if what == "expr":
                    self.do({"op": "bin", "bop": op(), "a": x, "b": l})
                    outs.append(self.last())
                elif what == "array":
                    self.do({"op": "lit", "base": "int", "v": str(v)})
                    self.do({"op": "arrayNew", "xs": [l, self.last()]})
                    if self.m.regs[self.last()] is not DEAD:
                        outs.append(self.last())
                else:
                    outs.append(l)
            self.dist["compile"] = self.dist.get("compile", 0) + 1
            self.m.compile([[r, f"out{i}", rng.choice(self.parties)] for i, r in enumerate(outs) if self.m.regs[r] is not DEAD])
            return None
        if k == "failedcompile":
            # a compilation that fails part-way (two different inputs under one name), followed by further compilations
            x = self.new_input("SecretInteger")
            self.do({"op": "lit", "base": "int", "v": "77"})
            self.do({"op": "bin", "bop": "add", "a": x, "b": self.last()})
            first = self.last()
            # ... after a function was discovered (the same function is used again by the compilations that follow)
            fshared = None
            if rng.random() < 0.7:
                self.define_fn(anns=["SecretInteger"], ret="SecretInteger",
                               plan=lambda ps: (self.do({"op": "bin", "bop": "mul", "a": ps[0], "b": ps[0]}), self.last())[1])
                if describe(self.m.regs[self.last()])[0] == "fn":
                    fshared = self.last()
                    if rng.random() < 0.5:
                        self.do({"op": "call", "f": fshared, "args": [first]})
                    else:
                        self.do({"op": "arrayOf", "r": x, "size": 2})
                        self.do({"op": "map", "a": self.last(), "f": fshared})
                    if self.m.regs[self.last()] is not DEAD:
                        first = self.last()
            self.do({"op": "party", "name": "Mallory"})
            pm = self.last()
            self.do({"op": "inputObj", "name": "dupname", "doc": "", "party": pm})
            self.do({"op": "wrap", "t": "SecretInteger", "r": self.last()})
            a = self.last()
            self.do({"op": "inputObj", "name": "dupname", "doc": "", "party": pm})
            self.do({"op": "wrap", "t": "SecretInteger", "r": self.last()})
            self.do({"op": "bin", "bop": "add", "a": a, "b": self.last()})
            bad = self.last()
            # the output names are the ones later compilations use too (whatever the compiler keeps per output name —
            # timers, caches — must not survive the failure)
            self.m.compile([[first, "out0", self.parties[0]], [bad, "out1", pm]])
            if fshared is not None:
                # the retry: the valid output alone, then the function at another site
                self.m.compile([[first, "out0", self.parties[0]]])
                z = self.new_input("SecretInteger")
                self.do({"op": "call", "f": fshared, "args": [z]})
                if self.m.regs[self.last()] is not DEAD:
                    self.m.compile([[self.last(), "out0", self.parties[0]], [first, "out1", self.parties[0]]])
            y = self.new_input(T)
            self.do({"op": "bin", "bop": "eq", "a": y, "b": y})
            self.m.compile([[self.last(), "out1", self.parties[0]], [y, "out0", self.parties[0]]])
            self.compile_now(prefer=[self.last()])
            self.compile_now(prefer=[y])
            return None
        if k == "triangle":
            # a helper reachable only through other function bodies, discovered twice while still pending:
            # top -> mid, top -> h, mid -> h, with either operand order inside top, through calls or map sites;
            # each triangle is compiled on its own before anything else can use its functions
            for order in (True, False):
                def helper_body(ps):
                    self.do({"op": "bin", "bop": "mul", "a": ps[0], "b": ps[0]})
                    return self.last()
                h = fn1(helper_body)
                if h is None:
                    return None

                def mid_body(ps, h=h):
                    self.do({"op": "call", "f": h, "args": [ps[0]]})
                    c = self.last()
                    self.do({"op": "bin", "bop": "add", "a": c, "b": ps[0]})
                    return self.last()
                mid = fn1(mid_body)
                if mid is None:
                    return None

                def top_body(ps, h=h, mid=mid, order=order):
                    first, second = (mid, h) if order else (h, mid)
                    self.do({"op": "call", "f": first, "args": [ps[0]]})
                    a = self.last()
                    self.do({"op": "call", "f": second, "args": [ps[0]]})
                    self.do({"op": "bin", "bop": op(), "a": a, "b": self.last()})
                    return self.last()
                top = fn1(top_body)
                if top is None:
                    return None
                x = self.new_input(T)
                if rng.random() < 0.5:
                    self.do({"op": "call", "f": top, "args": [x]})
                else:
                    self.do({"op": "arrayOf", "r": x, "size": 3})
                    self.do({"op": "map", "a": self.last(), "f": top})
                self.compile_now(prefer=[self.last()])
            return None
        if k == "objorder":
            # objects whose fields are not written in alphabetical order, members of different classes, read back by key
            keys = rng.sample(["price", "amount", "fee", "zeta", "alpha", "mid"], rng.choice([2, 3, 4]))
            if keys == sorted(keys):
                keys.reverse()
            fs = [[kk, self.new_input(rng.choice(PUBSEC))] for kk in keys]
            self.do({"op": "objectNew", "fs": fs})
            o = self.last()
            got = []
            for kk in keys:
                self.do({"op": "objectGet", "o": o, "key": kk})
                got.append(self.last())
            self.compile_now(prefer=[o] + got[:3])
            return None
        if k == "paramzip":
            # an Array-typed function parameter (no size of its own) combined with a captured array of a concrete size:
            # zip / inner_product of different sizes must be rejected inside function bodies too
            Ti = rng.choice(["SecretInteger", "PublicInteger", "SecretUnsignedInteger"])
            w = self.new_input(Ti)
            self.do({"op": "arrayOf", "r": w, "size": 3})
            weights = self.last()
            r0 = self.new_input(Ti)
            self.do({"op": "arrayOf", "r": r0, "size": 2})
            row1 = self.last()
            fresh = self.new_input(Ti)

            def body(ps, weights=weights, fresh=fresh):
                for opn in rng.sample(["zip", "innerProduct", "zip"], 2):
                    self.do({"op": opn, "a": ps[0], "b": weights} if rng.random() < 0.5 else {"op": opn, "a": weights, "b": ps[0]})
                self.do({"op": "innerProduct", "a": ps[0], "b": ps[0]})
                ip = self.last()
                if self.m.regs[ip] is DEAD:
                    return fresh
                return ip
            ret = "Secret" + Ti.replace("Public", "").replace("Secret", "") if Ti.startswith("Secret") else Ti
            self.define_fn(anns=[["Array", Ti]], ret=ret, plan=body)
            f = self.last()
            if describe(self.m.regs[f])[0] != "fn":
                return None
            self.do({"op": "arrayNew", "xs": [row1, row1]})
            self.do({"op": "map", "a": self.last(), "f": f})
            self.compile_now(prefer=[self.last()])
            return None
        if k == "litfold":
            # literal-only sub-expressions (every foldable operator; mixed signs, magnitudes beyond 2**53 / 2**64 / the
            # float range; nested), each combined with a non-literal operand and sent to an output
            xi = self.new_input("SecretInteger")
            xu = self.new_input("SecretUnsignedInteger")
            pairs = [(-7, 2), (7, -2), (-7, -2), (2**60 + 1, 1), (10**30 + 1, 7), (10**400, 3), (2**64 - 1, 5), (-(2**70) - 1, 3),
                     (9007199254740993, 1), (R.big_int(rng), R.big_int(rng) or 1), (R.big_int(rng), rng.choice([2, 3, 10, -3])),
                     (10**600 + 7, 1), (10**1100 + 10**20, 10**530 + 3), (-(10**512) - 1, 9), (10**1024, 10**511)]
            outs = []
            for a, b in rng.sample(pairs, 5) + rng.sample(pairs[-4:], 1):
                bop = rng.choice(["div", "div", "mod", "add", "sub", "mul"])
                unsigned = a >= 0 and b > 0 and bop != "sub" and rng.random() < 0.4
                base = "uint" if unsigned else "int"
                self.do({"op": "lit", "base": base, "v": str(a)})
                la = self.last()
                self.do({"op": "lit", "base": base, "v": str(b)})
                self.do({"op": "bin", "bop": bop, "a": la, "b": self.last()})
                f1 = self.last()
                if self.m.regs[f1] is DEAD:
                    continue
                if rng.random() < 0.4:
                    self.do({"op": "lit", "base": base, "v": str(rng.choice([1, 2, 3]))})
                    self.do({"op": "bin", "bop": rng.choice(["add", "mul", "div"]), "a": f1, "b": self.last()})
                    if self.m.regs[self.last()] is not DEAD:
                        f1 = self.last()
                self.do({"op": "bin", "bop": rng.choice(["add", "mul", "sub"]), "a": xu if unsigned else xi, "b": f1})
                outs.append(self.last())
            self.do({"op": "lit", "base": "uint", "v": str(rng.choice([1, 3, 70]))})
            sh = self.last()
            self.do({"op": "lit", "base": "int", "v": str(R.big_int(rng))})
            self.do({"op": "bin", "bop": rng.choice(["shl", "shr"]), "a": self.last(), "b": sh})
            self.do({"op": "bin", "bop": "add", "a": xi, "b": self.last()})
            outs.append(self.last())
            rng.shuffle(outs)
            self.compile_now(prefer=outs[:4])
            return None
        if k == "closureloop":
            # one plain Python function (not decorated) passed to several map / reduce operations while the outer
            # variable it reads is rebound in between — written here as one function definition per use, each
            # immediately followed by its use (the entry-point run renders the group as a single Python function)
            g = f"g{rng.randint(0, 99)}"
            T = rng.choice(["SecretInteger", "PublicInteger", "SecretUnsignedInteger"])
            caps = [self.new_input(T) for _ in range(rng.choice([2, 3]))]
            a = self.new_input(T)
            self.do({"op": "arrayOf", "r": a, "size": rng.choice([2, 3])})
            arr = self.last()
            bop = op()
            red = rng.random() < 0.4
            init = self.new_input(T) if red else None
            res = []
            for cap in caps:
                def body(ps, cap=cap):
                    self.do({"op": "bin", "bop": bop, "a": ps[-1], "b": cap})
                    x = self.last()
                    if red:
                        self.do({"op": "bin", "bop": "add", "a": ps[0], "b": x})
                    return self.last()
                self.define_fn(anns=[T, T] if red else [T], ret=T, plan=body, plain={"group": g, "cap": cap}, name=f"plain_{g}")
                f = self.last()
                if describe(self.m.regs[f])[0] != "fn":
                    return None
                self.do({"op": "reduce", "a": arr, "f": f, "init": init} if red else {"op": "map", "a": arr, "f": f})
                res.append(self.last())
            self.compile_now(prefer=res)
            return None
        if k == "kwcall":
            # functions with parameters of pairwise different types and a non-commutative body, called with keyword
            # arguments in every order (and inside another function's body)
            kinds = rng.sample(["SecretInteger", "PublicInteger", "Integer"], rng.choice([2, 3]))
            if all(x == "Integer" for x in kinds):
                kinds[0] = "SecretInteger"

            def body(ps):
                acc = ps[0]
                for q in ps[1:]:
                    self.do({"op": "bin", "bop": "sub", "a": acc, "b": q})
                    acc = self.last()
                # an operation on each parameter alone: it has that parameter's secrecy, whatever the others are
                for q, t in zip(ps, kinds):
                    if t != "Integer":
                        self.do({"op": "bin", "bop": "mul", "a": q, "b": q})
                        sq = self.last()
                        self.do({"op": "bin", "bop": "sub", "a": acc, "b": sq})
                        acc = self.last()
                return acc
            ret = "SecretInteger" if "SecretInteger" in kinds else "PublicInteger"
            self.define_fn(anns=kinds, ret=ret, plan=body)
            f = self.last()
            if describe(self.m.regs[f])[0] != "fn":
                return None
            names = [f"p{i}" for i in range(len(kinds))]
            vals = []
            for t in kinds:
                if t == "Integer":
                    self.do({"op": "lit", "base": "int", "v": str(rng.randint(2, 9))})
                    vals.append(self.last())
                else:
                    vals.append(self.new_input(t))
            import itertools
            for perm in itertools.permutations(range(len(kinds))):
                for npos in range(len(kinds)):
                    if rng.random() < 0.6:
                        kw = [[names[i], vals[i]] for i in perm if i >= npos]
                        self.do({"op": "call", "f": f, "args": vals[:npos], "kw": kw})
            self.do({"op": "call", "f": f, "args": vals[:1], "kw": [[names[0], vals[0]]] + [[names[i], vals[i]] for i in range(1, len(kinds))]})

            def outer(ps, f=f, names=names, vals=vals):
                self.do({"op": "call", "f": f, "args": [], "kw": [[names[i], ps[0] if i == 0 else vals[i]] for i in reversed(range(len(names)))]})
                return self.last()
            self.define_fn(anns=[kinds[0]], ret=ret, plan=outer)
            g2 = self.last()
            if describe(self.m.regs[g2])[0] == "fn":
                self.do({"op": "call", "f": g2, "args": [vals[0]]})
            # the calls are what the program delivers: every keyword order reaches a compilation
            calls = [r for r in range(f + 1, len(self.m.regs)) if self.scope[r] == 0 and self.m.regs[r] is not DEAD
                     and describe(self.m.regs[r])[0] == "scalar" and r not in vals]
            rng.shuffle(calls)
            for i in range(0, min(len(calls), 8), 4):
                self.compile_now(prefer=calls[i:i + 4])
            return None
        if k == "sharedlit":
            # a literal traced before a compilation and reused after it next to a new literal
            self.do({"op": "lit", "base": "int", "v": str(rng.choice([3, 10, 41]))})
            l1 = self.last()
            x = self.new_input("SecretInteger")
            self.do({"op": "bin", "bop": "add", "a": x, "b": l1})
            self.compile_now(prefer=[self.last()])
            self.do({"op": "lit", "base": "int", "v": str(rng.choice([5, 7, 99]))})
            l2 = self.last()
            self.do({"op": "bin", "bop": "mul", "a": x, "b": l2})
            y = self.last()
            self.do({"op": "bin", "bop": "add", "a": y, "b": l1})
            self.compile_now(prefer=[self.last()])
            return None
        if k == "mapinner":
            # inner products whose operands are *mapped* arrays (their element type is the function's return class, not an
            # instance), in every combination with input arrays of either secrecy
            Ti = rng.choice(["SecretInteger", "PublicInteger", "SecretUnsignedInteger"])
            base = Ti.replace("Public", "").replace("Secret", "")
            sec, pub = "Secret" + base, "Public" + base
            n = rng.choice([2, 3])
            arrs = {}
            for nm, t in (("s", sec), ("p", pub)):
                a = self.new_input(t)
                self.do({"op": "arrayOf", "r": a, "size": n})
                arrs[nm] = self.last()

            def dbl(ps):
                self.do({"op": "bin", "bop": "add", "a": ps[0], "b": ps[0]})
                return self.last()
            made = []
            for src, t in (("s", sec), ("p", pub)):
                self.define_fn(anns=[t], ret=t, plan=dbl)
                f = self.last()
                if describe(self.m.regs[f])[0] != "fn":
                    continue
                self.do({"op": "map", "a": arrs[src], "f": f})
                arrs["m" + src] = self.last()
            keys = [kk for kk in ("s", "p", "ms", "mp") if kk in arrs]
            for x in keys:
                for y in keys:
                    if ("m" in x or "m" in y) and rng.random() < 0.8:
                        self.do({"op": "innerProduct", "a": arrs[x], "b": arrs[y]})
                        if self.m.regs[self.last()] is not DEAD:
                            made.append(self.last())
            rng.shuffle(made)
            self.compile_now(prefer=made[:4])
            self.compile_now(prefer=made[4:8])
            return None
        if k == "badret":
            # a function whose body is more secret than its declared return class (same base type), then used at a map,
            # a call and a reduce site whose results are compiled: the definition must be rejected
            base = rng.choice(["Integer", "UnsignedInteger", "Boolean"])
            sec, pub = "Secret" + base, "Public" + base
            lim = self.new_input(pub)

            def body(ps, lim=lim):
                self.do({"op": "bin", "bop": "xor" if base == "Boolean" else rng.choice(["add", "mul"]), "a": ps[0], "b": lim})
                return self.last()
            self.define_fn(anns=[sec], ret=pub, plan=body)
            f = self.last()
            x = self.new_input(sec)
            a = self.new_input(sec)
            self.do({"op": "arrayOf", "r": a, "size": 3})
            arr = self.last()
            made = []
            self.do({"op": "call", "f": f, "args": [x]})
            made.append(self.last())
            self.do({"op": "map", "a": arr, "f": f})
            made.append(self.last())
            if base != "Boolean":
                def cmp_body(ps, lim=lim):
                    self.do({"op": "bin", "bop": "lt", "a": ps[0], "b": lim})
                    return self.last()
                self.define_fn(anns=[sec], ret="PublicBoolean", plan=cmp_body)
                g2 = self.last()
                self.do({"op": "map", "a": arr, "f": g2})
                made.append(self.last())
            self.compile_now(prefer=[r for r in made if self.m.regs[r] is not DEAD])
            return None
        if k == "nestedparam":
            # a function over an array of arrays (parameter annotation Array[Array[T]]) mapped over a cube, whose body
            # reduces the rows with a second function taking an Array[T] parameter
            Ti = rng.choice(["SecretInteger", "PublicInteger", "SecretUnsignedInteger"])
            cap = self.new_input(Ti)

            def row_body(ps):
                self.do({"op": "innerProduct", "a": ps[1], "b": ps[1]})
                ip = self.last()
                if self.m.regs[ip] is DEAD:
                    return ps[0]
                self.do({"op": "bin", "bop": "add", "a": ps[0], "b": ip})
                return self.last()
            self.define_fn(anns=[Ti, ["Array", Ti]], ret=Ti, plan=row_body)
            g = self.last()
            if describe(self.m.regs[g])[0] != "fn":
                return None

            def mat_body(ps, g=g, cap=cap):
                self.do({"op": "reduce", "a": ps[0], "f": g, "init": cap})
                return self.last()
            self.define_fn(anns=[["Array", ["Array", Ti]]], ret=Ti, plan=mat_body)
            f = self.last()
            if describe(self.m.regs[f])[0] != "fn":
                return None
            rows = []
            for _ in range(2):
                a = self.new_input(Ti)
                self.do({"op": "arrayOf", "r": a, "size": 2})
                rows.append(self.last())
            self.do({"op": "arrayNew", "xs": rows})
            mat = self.last()
            self.do({"op": "arrayNew", "xs": [mat, mat, mat]})
            cube = self.last()
            self.do({"op": "map", "a": cube, "f": f})
            out1 = self.last()
            self.do({"op": "reduce", "a": mat, "f": g, "init": cap})
            self.compile_now(prefer=[out1, self.last()])
            return None
        if k == "twoarrparams":
            # two functions whose Array parameters differ in element class (and one in nesting), both used and compiled
            made = []
            kinds = rng.sample(["SecretInteger", "PublicInteger", "SecretUnsignedInteger", "PublicUnsignedInteger"], 2)
            for Ti in kinds:
                cap = self.new_input(Ti)
                use_param = rng.random() < 0.5

                def body(ps, cap=cap, use_param=use_param):
                    if not use_param:
                        # the result does not depend on the parameter: its declared type is still part of the signature
                        self.do({"op": "bin", "bop": "add", "a": cap, "b": cap})
                        return self.last()
                    self.do({"op": "innerProduct", "a": ps[0], "b": ps[0]})
                    return self.last()
                self.define_fn(anns=[["Array", Ti]], ret=Ti, plan=body)
                f = self.last()
                if describe(self.m.regs[f])[0] != "fn":
                    continue
                rows = []
                for _ in range(2):
                    a = self.new_input(Ti)
                    self.do({"op": "arrayOf", "r": a, "size": 2})
                    rows.append(self.last())
                self.do({"op": "arrayNew", "xs": rows})
                self.do({"op": "map", "a": self.last(), "f": f})
                made.append(self.last())
                if rng.random() < 0.5:
                    self.compile_now(prefer=[self.last()])
            self.compile_now(prefer=made)
            return None
        if k == "matrices":
            # arrays whose types agree on the outer size and the element *class* but differ below: rows of different sizes,
            # of different secrecy, zips with different right components
            Ti = rng.choice(["SecretInteger", "PublicInteger"])
            Tj = "PublicInteger" if Ti == "SecretInteger" else "SecretInteger"
            def arr_of(t, n):
                a = self.new_input(t)
                self.do({"op": "arrayOf", "r": a, "size": n})
                return self.last()
            r2, r3, q2 = arr_of(Ti, 2), arr_of(Ti, 3), arr_of(Tj, 2)
            made = []
            for row in rng.sample([r2, r3, q2], 3):
                self.do({"op": "arrayNew", "xs": [row, row]})
                made.append(self.last())
            x2, y2 = arr_of(Ti, 2), arr_of(Tj, 2)
            for a, b in rng.sample([(x2, x2), (x2, y2), (y2, x2), (y2, y2)], 3):
                self.do({"op": "zip", "a": a, "b": b})
                made.append(self.last())
            # input arrays of arrays built with the legacy constructor: same outer size, rows of different sizes / secrecy
            nested = []
            for t, inner in rng.sample([(Ti, 7), (Ti, 2), (Tj, 2), (Tj, 7)], 3):
                row = arr_of(t, inner)
                self.do({"op": "arrayOf", "r": row, "size": 4})
                if self.m.regs[self.last()] is not DEAD:
                    nested.append(self.last())
            # zips whose operands have collection elements: scalars with rows (either order), rows with rows, a zip zipped
            # again, and what unzip gives back
            zipped = []
            # (rows collected with Array.new: no input is wrapped twice)
            rows2 = [r for r in made[:3] if self.m.regs[r] is not DEAD]
            if rows2:
                flat2 = arr_of(Tj, 2)
                for a, b in rng.sample([(flat2, rows2[0]), (rows2[0], flat2), (rows2[0], rows2[-1])], 2):
                    self.do({"op": "zip", "a": a, "b": b})
                    if self.m.regs[self.last()] is not DEAD:
                        zipped.append(self.last())
                        if rng.random() < 0.6:
                            self.do({"op": "unzip", "a": self.last()})
                            if self.m.regs[self.last()] is not DEAD:
                                zipped.append(self.last())
            if nested:
                flat4 = arr_of(Ti, 4)
                for a, b in rng.sample([(flat4, nested[0]), (nested[0], flat4), (nested[0], nested[-1])], 2):
                    self.do({"op": "zip", "a": a, "b": b})
                    if self.m.regs[self.last()] is not DEAD:
                        zipped.append(self.last())
                        z = self.last()
                        if rng.random() < 0.6:
                            self.do({"op": "unzip", "a": z})
                            if self.m.regs[self.last()] is not DEAD:
                                zipped.append(self.last())
                        if rng.random() < 0.4:
                            self.do({"op": "zip", "a": z, "b": flat4})
                            if self.m.regs[self.last()] is not DEAD:
                                zipped.append(self.last())
            made = [r for r in made if self.m.regs[r] is not DEAD]
            if zipped:
                self.compile_now(prefer=zipped[::-1][:4])
            self.compile_now(prefer=(nested + made)[:4])
            self.compile_now(prefer=(made + nested)[:4])
            self.compile_now(prefer=made[2:6])
            return None
        if k == "nestedacc":
            # two-step access: an n-tuple inside an n-tuple, an object inside an object (every index / key of either level
            # on the inner value)
            a, b, c, d = (self.new_input() for _ in range(4))
            self.do({"op": "ntupleNew", "xs": [a, b]})
            inner = self.last()
            self.do({"op": "ntupleNew", "xs": [c, inner, d]})
            outer = self.last()
            self.do({"op": "ntupleGet", "t": outer, "i": "1"})
            got = self.last()
            made = []
            idx = list(range(-4, 4))
            rng.shuffle(idx)
            for i in idx:
                self.do({"op": "ntupleGet", "t": got, "i": str(i)})
                if self.m.regs[self.last()] is not DEAD:
                    made.append(self.last())
            self.do({"op": "objectNew", "fs": [["low", a], ["high", b]]})
            lim = self.last()
            self.do({"op": "objectNew", "fs": [["limits", lim], ["scale", c], ["high", d]]})
            cfg = self.last()
            self.do({"op": "objectGet", "o": cfg, "key": "limits"})
            got2 = self.last()
            for kk in rng.sample(["low", "high", "scale", "limits", "missing"], 5):
                self.do({"op": "objectGet", "o": got2, "key": kk})
                if self.m.regs[self.last()] is not DEAD:
                    made.append(self.last())
            rng.shuffle(made)
            self.compile_now(prefer=made[:4])
            return None
        if k == "zerolit":
            # literals of the values 0, 1, 2 (written, or the result of a fold) next to public and secret operands under
            # every arithmetic operator: an operation with a non-literal operand is recorded, whatever the literal's value
            made = []
            for t, base in rng.sample([("PublicInteger", "int"), ("SecretInteger", "int"), ("PublicUnsignedInteger", "uint")], 2):
                x = self.new_input(t)
                for v in (0, 1, 2):
                    if rng.random() < 0.5:
                        self.do({"op": "lit", "base": base, "v": str(v)})
                    else:
                        self.do({"op": "lit", "base": base, "v": str(v + 3)})
                        l3 = self.last()
                        self.do({"op": "lit", "base": base, "v": "3"})
                        self.do({"op": "bin", "bop": "sub", "a": l3, "b": self.last()})
                    lit = self.last()
                    for bop in rng.sample(["mul", "add", "sub", "pow", "div", "mod"], 3):
                        if bop in ("div", "mod") and v == 0:
                            continue
                        self.do({"op": "bin", "bop": bop, "a": x, "b": lit} if rng.random() < 0.7 or bop == "pow"
                                else {"op": "bin", "bop": bop, "a": lit, "b": x})
                        if self.m.regs[self.last()] is not DEAD:
                            made.append(self.last())
            rng.shuffle(made)
            self.compile_now(prefer=made[:4])
            return None
        return None

    def compile_now(self, prefer=()):
        rng = self.rng
        cands = [r for r in range(len(self.m.regs)) if self.scope[r] == 0 and self.m.regs[r] is not DEAD and r not in self.hidden
                 and describe(self.m.regs[r])[0] in ("scalar", "array", "tuple", "ntuple", "object")]
        if not cands:
            return None
        n = min(len(cands), rng.choice([1, 1, 2, 3, 4]))
        outs = []
        for i in range(n):
            v = cands[-1 - min(int(rng.expovariate(0.3)), len(cands) - 1)]
            if i < len(prefer) and prefer[i] in cands:
                v = prefer[i]
            outs.append([v, f"out{i}" if rng.random() > 0.05 else "out0", rng.choice(self.parties)])
        self.dist["compile"] = self.dist.get("compile", 0) + 1
        return self.m.compile(outs)

    def program(self):
        rng = self.rng
        for i in range(rng.choice([1, 1, 2, 3])):
            name = rng.choice(["P", "Q", "R", "alice"]) + str(i)
            if i > 0 and rng.random() < 0.2:
                # the same party written a second time (another Party object, another line of the program text)
                name = self.m.events[0]["c"]["name"] if self.m.events and self.m.events[0].get("c", {}).get("op") == "party" else name
            self.do({"op": "party", "name": name})
            self.parties.append(len(self.m.regs) - 1)
        for _ in range(rng.randint(1, 4)):
            self.new_input()
        compiles = rng.choice([1, 1, 1, 2, 3])
        marks = sorted(rng.sample(range(3, self.max_cmds + 3), compiles - 1)) if compiles > 1 else []
        while self.ncmd < self.max_cmds:
            self.gen_one()
            if marks and self.ncmd >= marks[0]:
                marks.pop(0)
                self.compile_now()
        self.compile_now()
        return self.m


def generate(seed_tag, index, max_cmds=25, escapes=False, scenario=None):
    rng = R.make(f"{seed_tag}:{index}:{scenario}")
    reset_globals()
    g = Gen(rng, max_cmds=max_cmds, escapes=escapes)
    if scenario is None:
        m = g.program()
    else:
        # a program made of one structured scenario (plus a little random context)
        g.do({"op": "party", "name": "P0"})
        g.parties.append(0)
        if rng.random() < 0.5:
            g.do({"op": "party", "name": "Q1"})
            g.parties.append(len(g.m.regs) - 1)
        g.new_input()
        g.scenario(scenario)
        for _ in range(rng.randint(0, 4)):
            g.gen_one()
        live = [r for r in range(len(g.m.regs)) if g.scope[r] == 0 and g.m.regs[r] is not DEAD and r not in g.hidden
                and describe(g.m.regs[r])[0] in ("scalar", "array", "tuple")]
        g.compile_now(prefer=live[-3:][::-1])
        m = g.m
    return m, g.dist
