"""Render a layer-B event list as the text of a Nada program (`from nada_dsl import *` …
`def nada_main(): … return [Output(…)]`). Commands that failed in the real run are left out; a
program with a rejected function definition is not rendered (returns None)."""

SYM = {"add": "+", "sub": "-", "mul": "*", "div": "/", "mod": "%", "pow": "**", "shl": "<<", "shr": ">>", "lt": "<",
       "gt": ">", "le": "<=", "ge": ">=", "eq": "==", "ne": "!=", "and": "&", "or": "|", "xor": "^"}
LITCLS = {"int": "Integer", "uint": "UnsignedInteger", "bool": "Boolean"}


def ann_src(a):
    if a == "Array":
        return "Array"
    if isinstance(a, str):
        return a
    return f"Array[{ann_src(a[1])}]"


def render(events, results, header="from nada_dsl import *\n", main_name="nada_main", spacing=1):
    lines = []
    indent = 1
    reg = 0
    live = set()
    last_compile = None
    fn_stack = []

    def emit(text):
        lines.append("    " * indent + text)

    for ev, res in zip(events, results):
        if "compile" in ev:
            last_compile = ev["compile"]
            continue
        c = ev["c"]
        op = c["op"]
        ok = res.get("s") is None
        r = f"r{reg}"
        if op == "beginFn":
            if not ok:
                return None
            params = ", ".join(f"{n}: {ann_src(a)}" for n, a in c["params"])
            fn_stack.append((c, len(lines), indent))
            emit("@nada_fn")
            emit(f"def {c['name']}({params}) -> __RET__:")
            indent += 1
            for i, (n, _) in enumerate(c["params"]):
                emit(f"r{reg + i} = {n}")
                live.add(reg + i)
            reg += len(c["params"])
            continue
        if op == "endFn":
            if not fn_stack:
                return None
            b, start, ind = fn_stack.pop()
            if not ok or c["ret"] not in live:
                return None
            emit(f"return r{c['ret']}")
            indent = ind
            lines[start + 1] = lines[start + 1].replace("__RET__", c["retAnn"])
            emit(f"{r} = {b['name']}")
            live.add(reg)
            reg += 1
            continue
        if ok:
            g = lambda k: f"r{c[k]}"  # noqa: E731
            if op == "party":
                s = f'Party(name="{c["name"]}")'
            elif op == "inputObj":
                s = f'Input(name="{c["name"]}", party={g("party")}, doc={c["doc"]!r})'
            elif op == "wrap":
                s = f'{c["t"]}({g("r")})'
            elif op == "arrayOf":
                s = f'Array({g("r")}, size={c["size"]})'
            elif op == "lit":
                s = f'{LITCLS[c["base"]]}({c["v"]})'
            elif op == "bin":
                s = f'{g("a")} {SYM[c["bop"]]} {g("b")}'
            elif op == "invert":
                s = f'~{g("a")}'
            elif op == "reveal":
                s = f'{g("a")}.to_public()'
            elif op == "truncPr":
                s = f'{g("a")}.trunc_pr({g("b")})'
            elif op == "publicEquals":
                s = f'{g("a")}.public_equals({g("b")})'
            elif op == "ifElse":
                s = f'{g("c")}.if_else({g("a")}, {g("b")})'
            elif op == "random":
                s = f'{c["t"]}.random()'
            elif op == "radd":
                s = f'{c["k"]} + {g("a")}'
            elif op == "arrayNew":
                s = f'Array.new({", ".join(f"r{x}" for x in c["xs"])})'
            elif op == "tupleNew":
                s = f'Tuple.new({g("a")}, {g("b")})'
            elif op == "ntupleNew":
                s = f'NTuple.new([{", ".join(f"r{x}" for x in c["xs"])}])'
            elif op == "objectNew":
                s = "Object.new({" + ", ".join(f'"{k}": r{x}' for k, x in c["fs"]) + "})"
            elif op == "ntupleGet":
                s = f'{g("t")}[{c["i"]}]'
            elif op == "objectGet":
                s = f'{g("o")}.{c["key"]}'
            elif op == "zip":
                s = f'{g("a")}.zip({g("b")})'
            elif op == "unzip":
                s = f'unzip({g("a")})'
            elif op == "map":
                s = f'{g("a")}.map({g("f")})'
            elif op == "reduce":
                s = f'{g("a")}.reduce({g("f")}, {g("init")})'
            elif op == "innerProduct":
                s = f'{g("a")}.inner_product({g("b")})'
            elif op == "call":
                s = f'{g("f")}(' + ", ".join([f"r{x}" for x in c["args"]] + [f"{n}=r{x}" for n, x in c.get("kw", [])]) + ")"
            else:
                s = None
            if s is not None:
                emit(f"{r} = {s}")
                for _ in range(spacing - 1):
                    lines.append("")
                live.add(reg)
        reg += 1
    if fn_stack or last_compile is None:
        return None
    outs = [f'Output(r{v}, "{name}", r{p})' for v, name, p in last_compile if v in live and p in live]
    if len(outs) != len(last_compile):
        return None
    emit("return [" + ", ".join(outs) + "]")
    return header + "\n\ndef " + main_name + "():\n" + "\n".join(lines) + "\n"
