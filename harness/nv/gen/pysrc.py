"""K6/K7 — seeded generator of Python source texts for the strict auditor: programs of the strict
subset built from typed fragments, then perturbed: statements and expressions from a zoo covering
every `ast` statement / expression class, type errors, layout variation (blank lines, comments,
multi-line expressions, odd spacing), and token-level corruption (unparseable lines)."""
import ast

HEADER = "from nada_dsl import *\n"

# --- strict-subset fragments (each returns lines of the nada_main body) -----------------------------
def base_program(rng, wrong=False):
    L = []
    nparties = rng.choice([1, 1, 2])
    for i in range(nparties):
        L.append(rng.choice([f'p{i} = Party(name="P{i}")', f'p{i} = Party("P{i}")', f'p{i} = Party(name="Zoë{i}")', f'p{i} = Party("漢{i}")']))
    ints, bools, lists = [], [], []
    cls_of, helpers = {}, []
    RANK = {"Integer": 0, "PublicInteger": 1, "SecretInteger": 2}
    for i in range(rng.randint(1, 4)):
        cls = rng.choice(["SecretInteger", "SecretInteger", "PublicInteger"])
        cls_of[f"x{i}"] = cls
        p = f"p{rng.randrange(nparties)}"
        form = rng.choice(['{c}(Input(name="x{i}", party={p}))', '{c}(Input("x{i}", {p}))', '{c}(Input("x{i}", party={p}))',
                           '{c}(Input(party={p}, name="x{i}"))'])
        L.append(f"x{i} = " + form.format(c=cls, i=i, p=p))
        ints.append(f"x{i}")
    if rng.random() < 0.5:
        L.append(f"k = Integer({rng.choice([0, 1, 5, 12345678901234567890])})")
        ints.append("k")
        cls_of["k"] = "Integer"
    n = 0
    for _ in range(rng.randint(1, 8)):
        k = rng.random()
        n += 1
        a, b = rng.choice(ints), rng.choice(ints)
        if k < 0.22:
            L.append(f"v{n} = {a} {rng.choice(['+', '-', '*'])} {b}")
            ints.append(f"v{n}")
        elif k < 0.34:
            L.append(f"c{n} = {a} {rng.choice(['<', '<=', '>', '>=', '==', '!='])} {b}")
            bools.append(f"c{n}")
        elif k < 0.46 and bools:
            L.append(f"v{n} = {rng.choice(bools)}.if_else({a}, {b})")
            ints.append(f"v{n}")
        elif k < 0.55:
            L.append(f"l{n} = [{', '.join(rng.choice(ints) for _ in range(rng.randint(0, 3)))}]")
            lists.append(f"l{n}")
        elif k < 0.62:
            L.append(f"l{n}: list[SecretInteger] = []")
            L.append(f"for i in range({rng.randint(0, 3)}):")
            L.append(f"    l{n}.append({a} * {b})")
            lists.append(f"l{n}")
        elif k < 0.69:
            L.append(f"l{n} = [{a} + {b} for i in range({rng.randint(0, 3)})]")
            lists.append(f"l{n}")
        elif k < 0.75 and lists:
            L.append(f"v{n} = sum({rng.choice(lists)})")
            ints.append(f"v{n}")
        elif k < 0.78:
            L.append(f"v{n} = {rng.choice(['-', '+'])}{a}")
            ints.append(f"v{n}")
        elif k < 0.84 and a in cls_of and b in cls_of:
            # a helper function with annotated parameters; its declared return type is the class of the returned
            # value (`wrong`: a less / more secret class, which the checker must report)
            ca, cb = cls_of[a], cls_of[b]
            ret = max(ca, cb, key=RANK.get)
            if wrong and rng.random() < 0.5:
                ret = rng.choice([c for c in RANK if c != ret])
            helpers.append(f"def h{n}(p: {ca}, q: {cb}) -> {ret}:\n    t = p {rng.choice(['+', '-', '*'])} q\n    return t\n")
            L.append(f"v{n} = h{n}({a}, {b})")
            ints.append(f"v{n}")
            cls_of[f"v{n}"] = ret
        elif k < 0.89 and a in cls_of and b in cls_of:
            # assignment through a subscript: the item must have the list's item type (`wrong`: another class)
            item = b if (cls_of[a] == cls_of[b] or wrong) else a
            L.append(f"s{n} = [{a}, {a}]")
            L.append(f"s{n}[{rng.randint(0, 1)}] = {item}")
            L.append(f"v{n} = s{n}[0] + s{n}[1]")
            ints.append(f"v{n}")
        elif k < 0.93 and len(ints) >= 2:
            # a comprehension whose loop variable has the name of an outer variable (local to the comprehension in
            # Python 3: the outer variable keeps its value and type)
            shadow = rng.choice(ints)
            others = [x for x in ints if x != shadow] or ints
            L.append(f"l{n} = [{rng.choice(others)} * {rng.choice(others)} for {shadow} in range({rng.randint(1, 3)})]")
            lists.append(f"l{n}")
            L.append(f"v{n} = {shadow} + {shadow}")
            ints.append(f"v{n}")
        elif k < 0.97:
            # nested lists whose rows differ in secrecy / constness, then reads through them
            rows = [[rng.choice(ints) for _ in range(rng.randint(1, 2))] for _ in range(rng.randint(2, 3))]
            L.append(f"m{n} = [" + ", ".join("[" + ", ".join(r) + "]" for r in rows) + "]")
            i = rng.randrange(len(rows))
            L.append(rng.choice([f"v{n} = sum(m{n}[{i}])", f"v{n} = m{n}[{i}][0]", f"v{n} = m{n}[{i}][0] + {a}"]))
            ints.append(f"v{n}")
        elif k < 0.99:
            # an annotated list of lists whose rows start empty (the annotation is the only source of the item type)
            cls = cls_of.get(a, "SecretInteger")
            L.append(f"g{n}: list[list[{cls}]] = {rng.choice(['[[]]', '[[], []]', '[[' + a + '], []]'])}")
            L.append(f"w{n} = g{n}[0]")
            if rng.random() < 0.5:
                row = rng.choice([0, -1])
                L.append(f"g{n}[{row}].append({a})")
                L.append(f"v{n} = g{n}[{row}][0]")
                ints.append(f"v{n}")
                cls_of[f"v{n}"] = cls
            else:
                L.append(f"u{n} = [w{n}, g{n}[-1]]")
        else:
            L.append(f"n{n} = {rng.randint(0, 9)} {rng.choice(['+', '-', '*'])} {rng.randint(0, 9)}")
    outs = []
    for i in range(rng.randint(1, 3)):
        v = rng.choice(ints)
        p = f"p{rng.randrange(nparties)}"
        outs.append(rng.choice([f'Output({v}, "o{i}", {p})', f'Output(value={v}, name="o{i}", party={p})',
                                f'Output({v}, name="o{i}", party={p})', f'Output({v}, "o{i}", party={p})']))
    L.append("return [" + ", ".join(outs) + "]")
    base_program.helpers = helpers
    return L, ints, bools, lists


HELPERS = [
    "def helper(a: SecretInteger, b: SecretInteger) -> SecretInteger:\n    return a + b\n",
    "def total(xs: list[SecretInteger]) -> SecretInteger:\n    return sum(xs)\n",
    "def twice(a: int) -> int:\n    return a * 2\n",
]

# --- a zoo covering every ast statement / expression class ------------------------------------------
STMT_ZOO = [
    # prohibited assignments whose value is itself prohibited (each part has to be marked)
    "(q, r) = (lambda v: v, eval('x'))", "a = b = p0.name", "q, *r = [lambda: 1, x0.attr]", "x0.attr = lambda: (yield)", "a = b = (lambda: 1, {1: 2})",
    "pass", "return", "return None", "x: int", "x: int = 1", "x: foo = 1", "x: list = []", "x: list[list[int]] = [[1]]",
    "del x0", "x0 += 1", "x0 -= x0", "a = b = 1", "(a, b) = (1, 2)", "a, *b = [1, 2, 3]", "xs[0] = 1", "xs[0][1] = x0",
    "xs.y[0] = 1", "f()[0] = 1", "xs[0:1] = [1]", "xs['k'] = 1", "assert x0", "assert x0, 'msg'", "raise ValueError('x')", "raise",
    "global g", "nonlocal q", "import os", "import os as o, sys", "from os import path", "from . import x", "from nada_dsl import Party",
    "from nada_dsl import *", "while True:\n    pass", "while x0:\n    x0 = x0 + 1\nelse:\n    pass", "if x0:\n    y = 1\nelif x0:\n    y = 2\nelse:\n    y = 3",
    "for i in range(3):\n    z = i", "for i in range():\n    z = i", "for i in [1, 2]:\n    z = i", "for (i, j) in []:\n    pass",
    "for i in range(2):\n    continue\nelse:\n    pass", "for i in range(2):\n    break", "for i in x0:\n    z = i",
    "try:\n    pass\nexcept Exception as e:\n    pass\nelse:\n    pass\nfinally:\n    pass", "try:\n    pass\nexcept* ValueError:\n    pass",
    "with open('f') as f:\n    pass", "with a, b as c:\n    pass", "async def g():\n    await h()", "async def g():\n    async for i in h():\n        pass",
    "async def g():\n    async with h() as i:\n        pass", "def g():\n    yield 1", "def g():\n    yield from h()", "def g(x):\n    return 1",
    "def g():\n    return 1", "def g(x: int):\n    return x", "def g(x: int) -> int:\n    return x", "def g(x: print('EXECUTED')) -> int:\n    return 1",
    "def g(x: int) -> print('EXECUTED'):\n    return 1", "def g(*a, **k) -> int:\n    return 1", "def g(x: int = 5, /, y: int = 2, *, z: int) -> int:\n    return 1",
    "@decorator\ndef g(x: int) -> int:\n    return x", "def g(x: list[int]) -> list[int]:\n    return x", "def g(x: 5) -> int:\n    return 1",
    "def g(x: None) -> None:\n    return x", "def g(x: 'int') -> int:\n    return 1", "def g(x: list[5]) -> int:\n    return 1",
    "def g(x: undefined_name) -> int:\n    return 1", "def g(x: int) -> undefined_name:\n    return 1", "def g(x: int) -> 1/0:\n    return 1",
    "def g(x: __import__('os').getcwd()) -> int:\n    return 1",
    "x: \"print('EXECUTED')\" = 1", "x: list[\"print('EXECUTED')\"] = []", "def g(x: \"print('EXECUTED')\") -> int:\n    return 1",
    "def g(x: int) -> \"__import__('os').getcwd()\":\n    return 1", "x: \"list[int]\" = []", "x: 'SecretInteger' = x0",
    "def g(x: 'list[' + 'int]') -> int:\n    return 1", "x: (lambda: int)() = 1", "x: [int][0] = 1", "x: int.__class__ = 1", "class C:\n    pass", "class C(B, metaclass=M):\n    x: int = 1\n    def m(self):\n        return 1",
    "match x0:\n    case 1:\n        pass\n    case [a, b]:\n        pass\n    case {'k': v}:\n        pass\n    case C(x=1) | None:\n        pass\n    case _:\n        pass",
    "type X = int", "x0", "1", "'doc'", "lambda: 1", "print(x0)", "x0.foo()", "x0.append(1)", "l.append()", "l.append(1, 2)", "p0(1)", "x0(1)", "g(1)", "helper(x0)",
    "helper(x0, x0, x0)", "helper(1, 2)", "total([x0])", "twice(2)", "twice(x0)", "undefined(1)", "Party()", "Party(1)", "Party(name=1)", "Party('a', 'b')",
    "Input()", "Input('a')", "Input(1, 2)", "Input(name='a')", "Output()", "Output(1, 2, 3)", "Output(x0)", "Output(x0, 'a', p0, 4)",
    "Output(value=x0, name='o', party=p0, extra=1)", "Integer()", "Integer('a')", "Integer(1, 2)", "SecretInteger()", "SecretInteger(1)",
    "PublicInteger(x0)", "range()", "range(1, 2)", "range('a')", "str()", "str(1)", "str('a')", "sum()", "sum([1])", "sum(x0)",
    "sum([x0], x0)", "x0.if_else()", "x0.if_else(x0)", "x0.if_else(x0, x0)", "(x0 < x0).if_else(1, 2)", "(x0 < x0).if_else(x0, 'a')",
    "True.if_else(x0, x0)", "Party(name='a').name",
    # `*` / `**` unpackings at the constructors the checker knows by their keywords
    "q = Input(name='a', **opts)", "q = Input(**opts, party=p0)", "q = Input(**a, **b)", "q = Input(*args)", "q = Input('a', *rest)",
    "q = Party(**kw)", "q = Party(*names)", "q = Output(x0, **kw)", "q = Output(**kw, name='o')", "q = Output(*triple)",
    "q = SecretInteger(Input(name='a', **opts))", "q = SecretInteger(**kw)", "q = Integer(*one)", "q = sum(*ls)", "q = range(*r)",
    "q = x0.if_else(*branches)", "q = (x0 < x0).if_else(x0, **kw)", "q = helper(**kw)", "q = helper(x0, **kw)", "q = str(**kw)",
    # loop bodies whose static environment never settles (a swap of two differently typed variables, self-nesting)
    "for i in range(2):\n    t_ = x0\n    x0 = p0\n    p0 = t_", "for i in range(3):\n    x0 = [x0]", "for i in range(2):\n    l = [l]",
    "for i in range(2):\n    t_ = x0\n    x0 = 'a'\n    t_ = x0", "for i in range(2):\n    x0, p0 = p0, x0",
    "for i in range(2):\n    for j in range(2):\n        x0 = [x0]", "for i in range(4):\n    s_ = 1\n    s_ = 'a'\n    s_ = [s_]",
    "for i in range(3):\n    g_ = h_\n    h_ = [1]\n    h_ = g_[0]", "for i in range(3):\n    g_ = h_\n    h_ = x0\n    h_ = [g_]",
    "for i in range(2):\n    u_ = v_\n    v_ = w_\n    w_ = [u_]\n    w_ = 1", "for i in range(3):\n    for j in range(2):\n        g_ = h_\n        h_ = [[1]]\n        h_ = g_[0]",
    "acc_ = Integer(0)\nfor i in range(3):\n    acc_ = acc_ + x0", "a_ = Integer(0)\nb_ = Integer(0)\nfor i in range(2):\n    b_ = a_\n    a_ = x0",
]
# statements that are type errors but only just: a checker that is slightly too generous accepts them, and then the value
# bound at run time is not of the inferred type
NEAR_MISS = [
    "nm: int = 1 < 2", "nm: int = True", "nm: int = not True", "nm: bool = 1", "nm: int = True and False", "nm: int = 'a'", "nm: str = 1",
    "nm: list[int] = [True]", "nm: list[int] = [1 < 2]", "nm: list[bool] = [1]", "nm: SecretInteger = Integer(1)", "nm: Integer = x0",
    "nm: PublicInteger = Integer(2)", "nm: list[SecretInteger] = [Integer(1)]", "nm: list[Integer] = [x0]", "nm: SecretInteger = x0 < x0",
    "nm: list[list[int]] = [[True]]", "nm: int = x0", "nm: SecretInteger = 1", "nm: list[int] = [[1]]", "nm: list[list[int]] = [1]",
    "nm: int = 1\nnm2: bool = nm", "nm: bool = 1 < 2\nnm2: int = nm", "nm = [1, 2]\nnm[0] = True", "nm = [True]\nnm.append(1)",
    "nm = [1]\nnm.append(1 < 2)", "nm: list[int] = []\nnm.append(True)", "nm = [x0]\nnm.append(Integer(1))",
    # a variable whose type changes from one iteration of a loop to the next (the body is typed once)
    "na = Integer(0)\nnm = Integer(0)\nfor i in range(2):\n    nm = na\n    na = x0", "nm = Integer(0)\nfor i in range(2):\n    nm = nm + x0",
    "nm = 1\nfor i in range(3):\n    nm = [nm]", "na = 1\nnm = 'a'\nfor i in range(2):\n    nm = na\n    na = 'b'",
    "nm: list[int] = []\nfor i in range(2):\n    nm: list[str] = ['a']", "nm = Integer(1)\nfor i in range(2):\n    for j in range(2):\n        nm = nm * x0",
    # a store into a list of lists with fewer subscripts than the list has levels, of a value of the innermost type
    "nm: list[list[int]] = [[1]]\nnm[0] = 2\nnw = nm[0]", "nm: list[list[SecretInteger]] = [[x0]]\nnm[0] = x0 * x0\nnw = nm[0]\nnz = sum(nw)",
    "nm: list[list[list[int]]] = [[[1]]]\nnm[0][0] = 5\nnw = nm[0][0]",
    # ... a variable first bound inside the outer loop's body and changed by the inner loop
    "for i in range(2):\n    nm = Integer(0)\n    for j in range(2):\n        nw = nm\n        nm = nm + x0",
    "for i in range(2):\n    na = Integer(1)\n    nm = Integer(0)\n    for j in range(3):\n        nm = na\n        na = x0",
    "for i in range(1):\n    for j in range(1):\n        nm = 1\n        for k2 in range(2):\n            nw = [nm]\n            nm = 'a'",
]
EXPR_ZOO = [
    "x0", "1", "1.5", "1j", "'s'", "b's'", "None", "True", "False", "...", "-x0", "+x0", "-1", "- 1", "-'s'", "+'s'", "not x0", "not True", "~x0", "~1",
    "x0 + x0", "x0 - 1", "1 * x0", "x0 / x0", "x0 // 2", "x0 % 2", "x0 ** 2", "x0 << 1", "x0 >> 1", "x0 & x0", "x0 | x0", "x0 ^ x0", "x0 @ x0",
    "'a' + 'b'", "'a' + 1", "1 + 'a'", "'a' * 2", "x0 < x0", "x0 < 1", "1 < 2 < 3", "x0 == x0", "x0 != 'a'", "x0 is x0", "x0 is not None",
    "x0 in [x0]", "x0 not in [1]", "True and False", "True and 1", "x0 and x0", "x0 or x0", "not (x0 and True)", "True == False", "'a' == 'a'",
    "1 if x0 else 2", "[1, 2]", "[x0, 1]", "[]", "[[1], [2]]", "[[1], ['a']]", "(1, 2)", "()", "{1, 2}", "{'a': 1}", "{**d}", "[*a]", "{}", "f'{x0}'", "f'{x0!r:>{w}}'",
    "x0[0]", "l[0]", "l[x0]", "l['a']", "l[0][1]", "l[1:2]", "l[::2]", "l[0, 1]", "x0.attr", "x0.a.b.c", "(x0).real", "lambda a: a", "lambda a, b=1, *c, **d: a",
    "(y := 1)", "[i for i in range(3)]", "[i for i in range(3) if i]", "[i for i in [1]]", "[i for i in x0]", "[x0 for i in range(2) for j in range(2)]",
    "[(i, j) for (i, j) in []]", "{i for i in range(3)}", "{i: i for i in range(3)}", "(i for i in range(3))", "[i async for i in a]", "await x0", "yield",
    "f(*a, **k)", "f(a=1)", "f(a)(b)", "Party(name='p' + str(1))", "str(1) + 'a'", "sum([x0, x0])", "sum([])", "sum(l)", "max(x0, x0)", "len(l)", "int('1')",
    "Integer(5)", "Integer(x0)", "Integer(-1)", "SecretInteger(Input(name='q', party=p0))", "SecretInteger(Input('q', p0, 'doc'))", "range(3)", "range(x0)",
    "x0 if True else x0", "x0.if_else(x0, x0)", "(x0 < x0).if_else(x0, x0)", "(x0 < x0).if_else(x0, k)", "(1 < 2).if_else(x0, x0)", "(x0 == x0).if_else(x0, 1)",
    "(x0 < x0).if_else(x0, undefined_name)", "(x0 < x0).if_else(undefined_name, x0)", "(Integer(1) < Integer(2)).if_else(x0, undefined_name)",
    "(Integer(1) < Integer(2)).if_else([x0], x0)", "(Integer(1) < Integer(2)).if_else(x0, helper)", "(x0 < x0).if_else([x0], [x0])",
    "(Integer(1) < Integer(2)).if_else(x0 + 'a', x0)", "(x0 < x0).if_else(x0, nada_main)", "(x0 < x0).if_else(p0, x0)",
    "(Integer(0) == Integer(0)).if_else(undefined_a, undefined_b)", "x0.if_else(undefined_name, [1])",
    "'a\x0cb'", "'a\x1cb'", "'a\u2028b'", "'\x85'", "'é漢'", "Party(name='Zoë')", "'\x0b'",
]
# integer literals beyond the interpreter's int -> str digit limit (legal in hexadecimal, octal and binary notation)
EXPR_ZOO += ["0x" + "f" * 4096, "0o7" + "1" * 5000, "0b1" + "0" * 15000, "-0x" + "9a" * 2200, "x0 + 0x" + "f" * 4000, "[0x" + "ab" * 2100 + "]"]
COMMENTS = ["", "", "  # a comment", "  # <b>html & entities</b>", "\t# tab", "  # é漢 naïve", "  # page\x0cbreak", "  # sep\u2028arator",
            "  # \x1c\x1d\x1e\x85"]


def indent(lines, n=1):
    return [("    " * n) + l if l.strip() else l for s in lines for l in s.split("\n")]


def layout_vary(rng, line):
    """odd spacing / parenthesised multi-line variants of simple binary expressions"""
    for op in (" + ", " - ", " * ", " < ", " == ", " and ", " or "):
        if op in line and "=" in line.split(op)[0] and rng.random() < 0.35 and not line.lstrip().startswith(("for", "def", "return", "if", "while")):
            lhs, rhs = line.split(" = ", 1) if " = " in line else (None, None)
            if lhs is None or op not in rhs:
                continue
            a, b = rhs.split(op, 1)
            style = rng.randrange(5)
            pad = " " * (len(lhs) - len(lhs.lstrip()))
            if style == 0:
                return f"{lhs} = {a}{op.strip()}{b}"
            if style == 1:
                return f"{lhs} = {a}   {op.strip()}   {b}"
            if style == 2:
                return f"{lhs} = ({a}\n{pad}    {op.strip()} {b})"
            if style == 3:
                return f"{lhs} = ({a} {op.strip()}\n{pad}    {b})"
            return f"{lhs} = (\n{pad}    {a}{op}{b}\n{pad})"
    return line


def corrupt(rng, text):
    """token-level corruption of one line"""
    lines = text.split("\n")
    i = rng.randrange(len(lines))
    l = lines[i]
    k = rng.randrange(8)
    if k >= 6:
        # the same unparseable line twice (typed twice / a stray closing bracket after a legitimate one), possibly equal
        # to an earlier line that parses fine
        bad = rng.choice([l + " (", l + " = =", "    )", "    total = a +", l.replace("(", "", 1) if "(" in l else l + " ]"])
        j = rng.randrange(i, len(lines))
        lines[i] = bad
        lines.insert(j + 1, bad)
        if bad == "    )" and rng.random() < 0.7:
            lines.insert(i, "    zz = sum(\n        [x0]\n    )")
        return "\n".join(lines)
    if k == 0 and l:
        j = rng.randrange(len(l))
        l = l[:j] + l[j + 1:]
    elif k == 1:
        l = l + rng.choice([" (", " )", " [", " :", " ,,", " = =", " \\", " '"])
    elif k == 2:
        l = l.replace("(", "", 1)
    elif k == 3:
        l = "   " + l
    elif k == 4:
        l = l.replace(":", "", 1)
    else:
        l = rng.choice(["$$$", "def", "x = = 1", "    )", "return return", "'unterminated", '"""'])
    lines[i] = l
    return "\n".join(lines)


def generate(rng, mode=None):
    """mode: 'clean' (strict subset, well typed), 'typed' (type errors), 'zoo' (arbitrary syntax),
    'corrupt' (syntax errors); default: random mix"""
    mode = mode or rng.choice(["clean", "clean", "typed", "zoo", "zoo", "zoo", "corrupt", "nearmiss"])
    # `wrong`: a helper whose declared return type is not the class it returns / an item assignment of another class —
    # also in otherwise clean programs, so that such a flaw is the only one the checker has to notice
    body, ints, bools, lists = base_program(rng, wrong=(mode == "typed" or rng.random() < 0.25))
    helpers = [h for h in HELPERS if rng.random() < 0.3] + list(base_program.helpers)
    if mode == "nearmiss" and rng.random() < 0.12:
        # ... or a helper whose *last* return is of the declared class while an earlier one (inside a loop, before dead code,
        # in a nested loop) returns a value of another class, and a call
        A, B = rng.choice([("Integer", "SecretInteger"), ("PublicInteger", "SecretInteger"), ("int", "Integer"), ("SecretInteger", "Integer")])
        hbody = rng.choice(["    for i in range(1):\n        return q\n    return p\n", "    return q\n    return p\n",
                            "    for i in range(2):\n        for j in range(1):\n            return q\n    return p\n",
                            "    t = p\n    for i in range(3):\n        t = q\n        return t\n    return p\n"])
        helpers.append(f"def hm(p: {A}, q: {B}) -> {A}:\n{hbody}")
        mk = {"int": "1", "Integer": "Integer(1)", "PublicInteger": "Integer(2) + Integer(0)"}
        sec = next((x for x in ints if x.startswith("x")), "x0")
        body.insert(len(body) - 1, f"nm = hm({mk.get(A, sec)}, {mk.get(B, sec)})")
        body.insert(len(body) - 1, "nu = [nm]")
    elif mode == "nearmiss" and rng.random() < 0.25:
        # ... or one helper that does not return what it declares (no return statement on some path, a bare return), and a call
        cls = rng.choice(["SecretInteger", "PublicInteger", "Integer", "int"])
        hbody = rng.choice(["    t = p\n", "    t = p\n    return\n", "    for i in range(2):\n        t = p\n", "    t = [p]\n", "    return None\n"])
        helpers.append(f"def hm(p: {cls}) -> {cls}:\n{hbody}")
        arg = {"int": "1", "Integer": "Integer(1)"}.get(cls) or next((x for x in ints if x.startswith("x")), "x0")
        body.insert(len(body) - 1, f"nm = hm({arg})")
        body.insert(len(body) - 1, "nu = [nm]")
    elif mode == "nearmiss":
        # an otherwise clean program with exactly one statement that is only just ill-typed, followed by a use of what it bound
        import re as _re
        decl_end = max([i for i, l in enumerate(body) if _re.match(r"(p\d+|x\d+|k) = ", l)] + [0]) + 1
        pos = rng.randrange(min(decl_end, len(body) - 1), len(body))
        # (the list is walked in order — with a random start — so that a run of a few dozen programs uses every entry)
        generate.nm_next = (getattr(generate, "nm_next", None) if getattr(generate, "nm_next", None) is not None else rng.randrange(len(NEAR_MISS))) + 1
        stmt = NEAR_MISS[generate.nm_next % len(NEAR_MISS)]
        body.insert(pos, stmt)
        body.insert(pos + 1, rng.choice(["nu = nm", "nu = [nm]", "nu = nm"]))
    if mode in ("typed", "zoo", "corrupt"):
        for _ in range(rng.randint(1, 4 if mode == "typed" else 7)):
            pos = rng.randrange(len(body))
            k = rng.random()
            if mode == "typed" or k < 0.35:
                e = rng.choice(EXPR_ZOO)
                stmt = rng.choice([f"t{pos} = {e}", f"t{pos} = {e}", f"t{pos}: int = {e}", f"t{pos}: list[int] = {e}", f"{e}",
                                   f"l = {e}", f"t{pos} = [{e}]", f"t{pos} = ({e}) + ({rng.choice(EXPR_ZOO)})",
                                   f"t{pos} = not ({e})", f"t{pos} = -({e})", f"t{pos} = ({e}) < ({rng.choice(EXPR_ZOO)})",
                                   f"return {e}"])
            else:
                stmt = rng.choice(STMT_ZOO)
            body.insert(pos, stmt)
    body = [layout_vary(rng, l) + rng.choice(COMMENTS) if "\n" not in l and rng.random() < 0.5 else l for l in body]
    if rng.random() < 0.3:
        body.insert(rng.randrange(len(body)), "")
    top = []
    if rng.random() < 0.25 and mode != "clean":
        top.append(rng.choice(STMT_ZOO))
    main = rng.choice(["nada_main", "nada_main", "nada_main", "main"]) if mode not in ("clean", "nearmiss") else "nada_main"
    src = HEADER + "\n" + "\n".join(helpers) + ("\n" if helpers else "") + "\n".join(top) + ("\n" if top else "") + \
        f"def {main}():\n" + "\n".join(indent(body)) + "\n"
    if rng.random() < 0.15:
        src = "\n\n" + src + "\n\n   \n"
    if mode == "corrupt":
        for _ in range(rng.randint(1, 3)):
            src = corrupt(rng, src)
    return mode, src


def zoo_programs():
    """one small program per entry of the expression and statement zoos (each entry once, whatever the random programs drew)"""
    pre = HEADER + "\ndef nada_main():\n    p0 = Party(name=\"P0\")\n    x0 = SecretInteger(Input(\"x0\", p0))\n    k = Integer(5)\n    l = [x0]\n"
    post = "    return [Output(x0, name=\"o0\", party=p0)]\n"
    for e in EXPR_ZOO:
        yield pre + f"    t = {e}\n    u = sum([{e}])\n" + post
    for st in STMT_ZOO:
        yield pre + "\n".join(indent([st])) + "\n" + post


def node_classes(src):
    try:
        return {type(n).__name__ for n in ast.walk(ast.parse(src))}
    except (SyntaxError, ValueError, RecursionError):
        return set()
