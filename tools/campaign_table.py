#!/usr/bin/env python3
"""Print the markdown table of the seeded-change campaign from seeded/*/meta.json."""
import json, os, glob
root = os.path.join(os.path.dirname(os.path.dirname(os.path.abspath(__file__))), "seeded")
rows = []
for d in sorted(glob.glob(os.path.join(root, "*"))):
    mp = os.path.join(d, "meta.json")
    if not os.path.exists(mp):
        continue
    m = json.load(open(mp))
    det = m["detection"]
    how = "concrete failing input" if det.get("concrete_failing_input") else ("broken obligation / correspondence, no failing input found" if det["exit_code"] == 1 else "NOT DETECTED")
    first = next((l for l in det.get("first_lines", []) if l.startswith("#")), "")
    rows.append(f"| {m['id']} | {m['summary'][:110]} | {det['check'].split(' ')[1]} | {how} | {'yes' if det.get('missed_by_the_checks_as_they_were_when_the_change_was_written') else 'no'} | {first[2:120]} |")
print("| id | change | check | outcome now | missed when written | first finding |")
print("|---|---|---|---|---|---|")
print("\n".join(rows))
