#!/bin/bash
# usage: dbg_mutant.sh <patch.diff> <prop> [tier]   — runs ./check <prop> from a private copy of /verif against /repo HEAD + patch
P=$1; PROP=$2; TIER=${3:-quick}
WT=/tmp/wt/dbg-$$; VC=/tmp/verif-dbg-$$
trap 'git -C /repo worktree remove --force $WT 2>/dev/null; rm -rf $VC $WT; git -C /repo worktree prune' EXIT
git -C /repo worktree add -f --detach $WT HEAD >/dev/null 2>&1
P=$(readlink -f "$P")
(cd $WT && git apply "$P") || { echo "patch does not apply: $P"; exit 3; }
rsync -a --delete --exclude .git /verif/ $VC/
(cd $VC && NADA_REPO=$WT ./check $PROP --tier $TIER; echo "rc=$?"; python3 - <<PY
import json
c=json.load(open('evidence/$PROP.json'))['coverage']
print({k:c[k] for k in c if k in ('evaluations','correspondence_disagreements','broken_obligations','command_distribution','entry_point_composition_K10')})
PY
)
git -C /repo worktree remove --force $WT; rm -rf $VC $WT; git -C /repo worktree prune
