#!/usr/bin/env python3
"""Confirm a seeded change and run checks against it.

usage: seed_eval.py <mutant_dir> <prop> [<prop> ...] [--tier quick] [--no-tests]
  <mutant_dir> holds patch.diff and demo.py.  A scratch worktree of /repo HEAD is created under
  /tmp/wt/eval-<pid>, the four confirmation runs are made (clean: tests + demo; patched: tests + demo),
  then `./check <prop>` is run with NADA_REPO pointing at the patched worktree.  The worktree is
  removed afterwards and the generated Lean tables are regenerated from /repo by a clean run.
Prints one JSON line with the outcome.
"""
import json, os, subprocess, sys, shutil, time

VERIF = os.environ.get("VERIF_SRC") or os.path.dirname(os.path.dirname(os.path.abspath(__file__)))
PY = "/venv/bin/python"


def sh(cmd, cwd=None, env=None, timeout=3600):
    p = subprocess.run(cmd, cwd=cwd, env=env, capture_output=True, text=True, timeout=timeout, shell=isinstance(cmd, str))
    return p.returncode, p.stdout + p.stderr


def tests(wt):
    rc, out = sh([PY, "-m", "pytest", "-q", "-p", "no:cacheprovider", "--timeout=900", "-x", "--ignore=_mutant"], cwd=wt)
    tail = [l for l in out.split("\n") if "passed" in l or "failed" in l or "error" in l.lower()][-3:]
    return rc == 0, tail


def demo(wt, mdir):
    """run the demonstration the way its author did: from <worktree>/_mutant/<name>/demo.py, cwd = worktree"""
    env = dict(os.environ, PYTHONPATH=wt, PYTHONDONTWRITEBYTECODE="1")
    inside = os.path.join(wt, "_mutant", os.path.basename(mdir))
    os.makedirs(inside, exist_ok=True)
    shutil.copy(os.path.join(mdir, "demo.py"), os.path.join(inside, "demo.py"))
    with open(os.path.join(wt, "_mutant", "conftest.py"), "w") as f:
        f.write('collect_ignore_glob = ["*"]\n')
    rc, out = sh([PY, os.path.join("_mutant", os.path.basename(mdir), "demo.py")], cwd=wt, env=env, timeout=600)
    return rc, out.strip().split("\n")[-1][:300]


def main():
    args = [a for a in sys.argv[1:] if not a.startswith("--")]
    mdir, props = os.path.abspath(args[0]), args[1:]
    tier = "thorough" if "--thorough" in sys.argv else "quick"
    wt = f"/tmp/wt/eval-{os.getpid()}"
    sh(["git", "-C", "/repo", "worktree", "add", "-f", "--detach", wt, "HEAD"])
    res = {"mutant": mdir, "props": props}
    try:
        if "--no-tests" not in sys.argv:
            res["clean_tests"] = tests(wt)
            res["clean_demo"] = demo(wt, mdir)
        rc, out = sh(["git", "apply", os.path.join(mdir, "patch.diff")], cwd=wt)
        if rc != 0:
            rc, out = sh(["git", "apply", "--3way", os.path.join(mdir, "patch.diff")], cwd=wt)
        res["apply"] = (rc, out[-300:])
        if rc != 0:
            print(json.dumps(res)); return 2
        if "--no-tests" not in sys.argv:
            res["patched_tests"] = tests(wt)
        res["patched_demo"] = demo(wt, mdir)
        res["checks"] = {}
        # the checks run from a private copy of /verif (build output included) so that concurrent work in /verif
        # and other evaluations cannot interfere through the regenerated tables
        vcopy = f"/tmp/verif-eval-{os.getpid()}"
        sh(["rsync", "-a", "--delete", "--exclude", ".git", "--exclude", "replays", VERIF + "/", vcopy + "/"])
        for p in props:
            t0 = time.time()
            env = dict(os.environ, NADA_REPO=wt)
            rc, out = sh([os.path.join(vcopy, "check"), p, "--tier", tier], cwd=vcopy, env=env, timeout=7200)
            lines = [l for l in out.split("\n") if l.startswith(("VIOLATION", "KNOWN-FINDING", "INFRA", "# "))]
            res["checks"][p] = {"rc": rc, "t": round(time.time() - t0), "lines": [l[:400] for l in lines[:6]]}
    finally:
        sh(["git", "-C", "/repo", "worktree", "remove", "--force", wt])
        shutil.rmtree(wt, ignore_errors=True)
        sh(["git", "-C", "/repo", "worktree", "prune"])
        shutil.rmtree(f"/tmp/verif-eval-{os.getpid()}", ignore_errors=True)
    print(json.dumps(res, indent=1))
    return 0


if __name__ == "__main__":
    sys.exit(main())
