#!/usr/bin/env python3
"""Store an evaluated seeded change under seeded/<id>/ (patch.diff, demo.py, notes.md, meta.json).

usage: store_seeded.py <mutant_dir> <id> <prop> <round> <first_eval.log> [<second_eval.log>] [--strengthening TEXT] [--origin TEXT]
  first_eval.log : output of tools/seed_eval.py with the checks as they were when the change was written
  second_eval.log: output of tools/seed_eval.py after the checks were strengthened (if they were)
"""
import json, os, shutil, sys

ROOT = os.path.dirname(os.path.dirname(os.path.abspath(__file__)))


def load(path):
    t = open(path).read()
    i = t.find('"mutant"')
    return json.loads(t[t.rfind("{", 0, i):])


def outcome(ch):
    lines = ch.get("lines", [])
    viol = [l for l in lines if "VIOLATION" in l]
    if ch.get("rc") == 1 and viol:
        return "concrete failing input" if not all("no-failing-input-found" in l for l in viol) else "broken obligation, no failing input found"
    if ch.get("rc") == 0:
        return "not detected"
    return f"check error (exit {ch.get('rc')})"


def main():
    args = sys.argv[1:]
    opts = {}
    for k in ("--strengthening", "--origin", "--summary"):
        if k in args:
            i = args.index(k)
            opts[k] = args[i + 1]
            del args[i:i + 2]
    mdir, mid, prop, rnd, first = args[:5]
    second = args[5] if len(args) > 5 else None
    e1 = load(first)
    e2 = load(second) if second else e1
    out = os.path.join(ROOT, "seeded", mid)
    os.makedirs(out, exist_ok=True)
    for f in ("patch.diff", "demo.py", "notes.md", "patch.as-written.diff"):
        if os.path.exists(os.path.join(mdir, f)):
            shutil.copy(os.path.join(mdir, f), os.path.join(out, f))
    notes = open(os.path.join(mdir, "notes.md")).read() if os.path.exists(os.path.join(mdir, "notes.md")) else ""
    summary = opts.get("--summary") or next((l.strip("# ").strip() for l in notes.split("\n") if len(l.strip()) > 30), "")[:300]
    c1, c2 = e1["checks"][prop], e2["checks"][prop]
    o1, o2 = outcome(c1), outcome(c2)
    meta = {
        "id": mid, "property": prop, "round": int(rnd),
        "origin": opts.get("--origin") or "written by an independent sub-agent that was given only the property text, one-line summaries of the earlier "
                  "changes for this property (to avoid duplicates) and a scratch worktree of /repo",
        "summary": summary, "needs_to_manifest": "see notes.md",
        "confirmation": {
            "what_ran": "tools/seed_eval.py: fresh worktree of /repo HEAD; full test suite + demo on the clean tree; git apply patch.diff; "
                        "full test suite + demo again (demo run from <worktree>/_mutant/<name>/)",
            "clean_tests_pass": e1["clean_tests"][0], "clean_demo_exit": e1["clean_demo"][0],
            "patched_tests_pass": e1["patched_tests"][0], "patched_demo_exit": e1["patched_demo"][0],
            "patched_demo_output": e1["patched_demo"][1],
        },
        "detection": {
            "check": f"./check {prop} --tier quick (NADA_REPO=<patched worktree>, private copy of /verif)",
            "exit_code": c2.get("rc"), "first_lines": c2.get("lines", [])[:6],
            "concrete_failing_input": o2 == "concrete failing input",
            "outcome_with_the_checks_as_they_were_when_the_change_was_written": o1,
            "missed_by_the_checks_as_they_were_when_the_change_was_written": o1 != "concrete failing input",
        },
    }
    if opts.get("--strengthening"):
        meta["detection"]["strengthening"] = opts["--strengthening"]
    json.dump(meta, open(os.path.join(out, "meta.json"), "w"), indent=1)
    print(mid, o1, "->", o2)


if __name__ == "__main__":
    main()
